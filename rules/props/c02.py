"""C02 — reported match indices are a valid witness of the match (structural clauses)."""
import os
import re

import refdiff
from cfg import Inconclusive, op_place, show, walk, strip_casts, poly_of, Poly
from common import (calls_to, callee, callee_names, field_chain, fn_of, get_fn, head_sources, peel, site,
                    guards_of, ret_aggregates, uses_of_local, is_diverging)
from engine import REPO

PROP = "C02"
LEVEL = "other"
UNDECIDED = [
    "that the indices are increasing, in range and point at matching characters for every input (correctness of the DP back-tracking)",
    "contiguity/anchoring of substring/prefix/postfix/exact indices beyond the window/bounds rules of C05",
]
ASSUMPTIONS = [
    "Vec::push / reserve / resize only append or reallocate; IndexMut<RangeFrom> gives access to the tail only",
]
M = "nucleo_matcher"

ALLOWED_VEC_OPS = ("::push", "::reserve", "::len", "::resize", "::reserve_exact", "::capacity", "::is_empty")
FORBIDDEN_HINT = ("clear", "truncate", "pop", "drain", "insert", "set_len", "retain", "remove", "swap_remove", "split_off",
                  "dedup", "sort", "iter_mut", "as_mut_slice", "as_mut_ptr", "fill", "reverse", "rotate", "swap")


def indices_local(fn):
    """The local holding the `indices: &mut Vec<u32>` parameter (or capture), if any."""
    for l in range(1, fn.arg_count + 1):
        ty = fn.b["locals"][l]["ty"]
        if fn.names.get(l) == "indices" and "Vec<u32>" in ty:
            return l
    return None


def derives_from_indices(fn, e, il):
    """Is `e` the indices vector itself (through reborrows / moves), not a value computed from it?"""
    seen = 0
    while isinstance(e, tuple) and e and e[0] in ("ref", "deref") and seen < 8:
        e = e[1]
        seen += 1
    if isinstance(e, tuple) and e and e[0] in ("arg", "local"):
        return e[1] == il or e[2] == "indices"
    return False


def rule_append_only(ctx):
    facts = ctx.facts
    nb = 0
    for b in facts.bodies_of(M):
        fn = fn_of(b)
        il = indices_local(fn)
        if il is None:
            continue
        nb += 1
        k = 0
        problems = 0
        for bi, t in fn.calls():
            if not t["args"]:
                continue
            pos = [i for i, a in enumerate(t["args"]) if derives_from_indices(fn, fn.expr_of_operand(a), il)]
            if not pos:
                continue
            c = callee(t)
            f = t.get("fn") or ""
            k += 1
            key = "%s|indices-op|%s" % (fn.path, c.rsplit("::", 1)[-1])
            if t.get("fn_local") or t.get("resolved_local"):
                # handed on to another matcher function: fine (that body is checked on its own)
                continue
            if "Vec" in c and any(c.endswith(x) for x in ALLOWED_VEC_OPS):
                continue
            if c.endswith("DerefMut>::deref_mut") or c.endswith("Deref>::deref") or f.endswith("DerefMut::deref_mut") or f.endswith("Deref::deref"):
                # slice view: only allowed when it is immediately sub-sliced from a saved length
                d = t["dest"]["l"]
                okv = True
                for u in uses_of_local(fn, d):
                    if u[0] == "term" and u[2]["k"] == "call" and (callee(u[2]).endswith("::index_mut") or callee(u[2]).endswith("::index") or callee(u[2]).endswith("::len")):
                        continue
                    if u[0] == "stmt" and ("ref" in u[3]["rv"] or "use" in u[3]["rv"]):
                        continue
                    okv = False
                if okv:
                    continue
                problems += 1
                ctx.violation(key, site(fn, bi), "the whole indices vector is borrowed as a mutable slice: earlier content can be overwritten")
                continue
            if c.endswith("::index_mut") or f.endswith("IndexMut::index_mut"):
                r = fn.expr_of_operand(t["args"][1])
                if r[0] == "agg" and r[1].endswith("RangeFrom::RangeFrom"):
                    st = r[2]["start"]
                    # start must be indices.len() taken before the resize
                    if st[0] == "call" and str(st[1]).endswith("::len") and derives_from_indices(fn, st[2][0], il):
                        rs = [rb for rb, rt in fn.calls(lambda t: callee(t).endswith("::resize"))]
                        if all(fn.dominates(st[4][0], rb) for rb in rs):
                            continue
                        problems += 1
                        ctx.violation(key, site(fn, bi), "tail slice starts at a length taken after the resize")
                        continue
                problems += 1
                ctx.violation(key, site(fn, bi), "indices vector indexed mutably with %s: only the freshly appended tail `[saved_len..]` may be written" % show(r))
                continue
            problems += 1
            hint = c.rsplit("::", 1)[-1]
            ctx.violation(key, site(fn, bi), "`%s` is applied to the caller's indices vector: it is documented as never cleared, only appended to" % hint)
        if not problems:
            ctx.ok(site(fn, 0), "indices vector only appended to / passed on (%d uses)" % k)
    ctx.floor("bodies receiving the indices vector", nb, 14)


def push_set(facts):
    """Bodies that (transitively) append to the indices vector."""
    direct = set()
    bodies = {}
    for b in facts.bodies_of(M):
        fn = fn_of(b)
        il = indices_local(fn)
        if il is None:
            continue
        bodies[fn.path] = fn
        for bi, t in fn.calls(lambda t: "Vec" in callee(t) and (callee(t).endswith("::push") or callee(t).endswith("::resize"))):
            if derives_from_indices(fn, fn.expr_of_operand(t["args"][0]), il):
                direct.add(fn.path)
    ps = set(direct)
    changed = True
    while changed:
        changed = False
        for p, fn in bodies.items():
            if p in ps:
                continue
            il = indices_local(fn)
            for bi, t in fn.calls(lambda t: callee(t) in ps):
                if any(derives_from_indices(fn, fn.expr_of_operand(a), il) for a in t["args"]):
                    ps.add(p)
                    changed = True
    return ps, bodies


def rule_no_push_on_none(ctx):
    facts = ctx.facts
    ps, bodies = push_set(facts)
    n = 0
    for p, fn in bodies.items():
        ret_ty = fn.b["locals"][0]["ty"]
        if not ret_ty.startswith("std::option::Option<"):
            continue
        if p.startswith("pattern::"):
            continue  # C02 is about the six Matcher algorithms; pattern-level composition is C15
        il = indices_local(fn)
        none_blocks = []
        for bi, si, rv in ret_aggregates(fn):
            if rv.get("agg") == "adt" and rv.get("variant") == "None":
                none_blocks.append(bi)
        # `?` on an inner Option: `_0 = <Option as FromResidual>::from_residual(..)`
        for bi, t in fn.calls(lambda t: callee(t).endswith("from_residual") and t["dest"]["l"] == 0):
            none_blocks.append(bi)
        appenders = []
        for bi, t in fn.calls():
            c = callee(t)
            is_vec = "Vec" in c and (c.endswith("::push") or c.endswith("::resize")) and derives_from_indices(fn, fn.expr_of_operand(t["args"][0]), il)
            is_call = c in ps and any(derives_from_indices(fn, fn.expr_of_operand(a), il) for a in t["args"])
            if is_vec or is_call:
                appenders.append((bi, t, is_call))
        for bi, t, is_call in appenders:
            n += 1
            start = t["target"]
            if start is None:
                continue
            starts = [start]
            if is_call:
                cal = facts.body(M, callee(t))
                cret = cal["locals"][0]["ty"] if cal else ""
                if cret.startswith("std::option::Option<"):
                    # result returned directly, or matched: only the Some edge means "appended"
                    if t["dest"]["l"] == 0 and not t["dest"]["p"]:
                        ctx.ok(site(fn, bi), "result of %s returned as is (a None from the callee means it appended nothing, by the same rule)" % callee(t).rsplit("::", 1)[-1])
                        continue
                    sw = fn.blocks[start]["term"]
                    # `?`: branch() call then switch
                    nxt = start
                    hops = 0
                    while hops < 4 and fn.blocks[nxt]["term"]["k"] in ("call", "goto") and fn.blocks[nxt]["term"].get("target") is not None:
                        tt = fn.blocks[nxt]["term"]
                        if tt["k"] == "call" and not callee(tt).endswith("::branch"):
                            break
                        nxt = tt["target"]
                        hops += 1
                    sw = fn.blocks[nxt]["term"]
                    if sw["k"] == "switch" and fn.expr_of_operand(sw["discr"])[0] == "discr":
                        e = fn.expr_of_operand(sw["discr"])
                        # Option: Some = 1 ; ControlFlow from branch(): Continue = 0
                        is_cf = "ControlFlow" in str(e[2])
                        good = [bb for v, bb in sw["arms"] if v == (0 if is_cf else 1)]
                        if not good:
                            good = [sw["otherwise"]] if not is_cf else []
                        starts = good
            bad = []
            for s0 in starts:
                r = fn.reach_from(s0)
                bad += [nb_ for nb_ in none_blocks if nb_ in r]
            if bad:
                ctx.violation("%s|append-then-none|%d" % (fn.path, n), site(fn, bi),
                              "indices can be appended here and the function can still return None afterwards (at %s): a failed match must append nothing" % fn.loc(bad[0]))
            else:
                ctx.ok(site(fn, bi), "no path from this append to a `None` result")
    ctx.floor("append sites in Option-returning bodies", n, 8)
    # the infallible appenders (u16 / unit results) cannot fail after appending by type
    for p in sorted(ps):
        fn = bodies[p]
        ret_ty = fn.b["locals"][0]["ty"]
        if not ret_ty.startswith("std::option::Option<"):
            ctx.ok(site(fn, 0), "%s appends and returns `%s` (cannot report failure)" % (p.rsplit("::", 1)[-1], ret_ty))


def is_indices_param(e):
    return e[0] == "cparam" and e[1] == "INDICES"


ALLOWED_GUARDED_CALLS = ("::push", "::reserve", "matrix::MatrixCell::set", "::reconstruct_optimal_path", "::resize", "[T]>::len", "Vec::<T, A>::len")


def _noid(e):
    """expression without call-site identities (two inlined copies of one helper compare equal)"""
    if not isinstance(e, tuple):
        return e
    if e and e[0] == "call":
        return ("call", e[1], tuple(_noid(x) for x in e[2]))
    if e and e[0] == "agg" and isinstance(e[2], dict):
        return ("agg", e[1], {k: _noid(v) for k, v in sorted(e[2].items())})
    return tuple(_noid(x) for x in e)


def _twin_max_sources(fn):
    """Both `Some(..)` results of a body generic over INDICES are `max of cell.score over a slice S`: True if the slices
    are the same expression, a description of the difference if not, None if the shape is not recognised."""
    srcs = []
    results = []
    for bi, si, rv in ret_aggregates(fn):
        if rv.get("variant") != "Some":
            continue
        results.append(fn.expr_of_operand(rv["ops"][0]))
    # `return slice.iter().map(..).max()`: the Option of the maximum is the result itself
    for dbi, dsi, kind, payload in fn.defs.get(0, []):
        if kind == "call" and str(payload.get("resolved") or payload.get("fn")).rsplit("::", 1)[-1] in ("max", "max_by_key") and "Iterator" in str(payload.get("fn")):
            results.append(fn.expr_of_local(0) if len(fn.defs.get(0, [])) == 1 else ("call", payload.get("resolved") or payload.get("fn"), tuple(fn.expr_of_operand(a) for a in payload["args"]), payload.get("fn"), (dbi, 0)))
    for dbi, dsi, kind, payload in fn.defs.get(0, []):
        if kind == "assign" and "agg" not in payload:
            e_ = fn.expr_of_rvalue(payload)
            if any(x[0] == "call" and str(x[1]).rsplit("::", 1)[-1] in ("max", "max_by_key") and "Iterator" in str(x[1]) for x in walk(e_)):
                results.append(e_)
    for e in results:
        mx = [x for x in walk(e) if x[0] == "call" and str(x[1]).rsplit("::", 1)[-1] in ("max", "max_by_key") and "Iterator" in str(x[1])]
        if not mx:
            # the score of the cell a hand-written search settled on: `S[best].score` -- the source is S (that the search
            # finds a maximal cell is not decided here; only that both variants look at the same cells)
            ix = [x for x in walk(e) if x[0] == "call" and str(x[1]).endswith("::index") and len(x[2]) == 2
                  and not (strip_casts(x[2][1])[0] == "agg" and "Range" in str(strip_casts(x[2][1])[1]))]
            if len(ix) == 1:
                srcs.append(_noid(strip_casts(peel(ix[0][2][0]))))
                continue
            px = [x for x in walk(e) if x[0] == "index" and isinstance(x[2], tuple) and x[2] and x[2][0] in ("local", "arg")]
            if len(px) == 1:
                srcs.append(_noid(strip_casts(peel(px[0][1]))))
                continue
            return None
        if len(mx) != 1:
            return None
        it = [x for x in walk(mx[0][2][0]) if x[0] == "call" and str(x[1]).endswith("[T]>::iter")]
        if len(it) != 1:
            return None
        if any(x[0] == "call" and str(x[1]).rsplit("::", 1)[-1] in ("rev", "skip", "take", "filter", "step_by", "skip_while", "take_while") for x in walk(mx[0][2][0])):
            return None
        srcs.append(_noid(strip_casts(peel(it[0][2][0]))))
    if len(srcs) < 2:
        return None
    def same(a, b):
        """structural equality; sub-expressions the expression builder cut off (`deep`) match anything"""
        if isinstance(a, tuple) and a and a[0] == "deep":
            return True
        if isinstance(b, tuple) and b and b[0] == "deep":
            return True
        if isinstance(a, dict) and isinstance(b, dict):
            return a.keys() == b.keys() and all(same(a[k], b[k]) for k in a)
        if isinstance(a, tuple) and isinstance(b, tuple):
            return len(a) == len(b) and all(same(x, y) for x, y in zip(a, b))
        return a == b
    if all(same(s_, srcs[0]) for s_ in srcs):
        return True
    return "%s vs %s" % (show(srcs[0])[:70], show(srcs[1])[:70])


def rule_indices_guard(ctx):
    facts = ctx.facts
    nreg = 0
    for b in facts.bodies_of(M):
        gens = [g["name"] for g in b.get("generics", []) if g["kind"] == "const"]
        if "INDICES" not in gens:
            continue
        fn = fn_of(b)
        il = indices_local(fn)
        for bi in sorted(fn.live):
            t = fn.blocks[bi]["term"]
            if t["k"] != "switch" or not is_indices_param(fn.expr_of_operand(t["discr"])):
                continue
            for sb in fn.succ[bi]:
                region = [x for x in fn.reach_from(sb) if fn.must_pass(x, via_edges=[(bi, sb)])]
                if not region:
                    continue
                nreg += 1
                key = "%s|INDICES-region|%d" % (fn.path, nreg)
                problems = []
                for x in region:
                    blk = fn.blocks[x]
                    tt = blk["term"]
                    if tt["k"] == "call":
                        c = callee(tt)
                        if not any(c.endswith(a) or a in c for a in ALLOWED_GUARDED_CALLS) and not c.endswith("Deref>::deref") and not c.endswith("DerefMut>::deref_mut"):
                            problems.append("calls %s" % c)
                    for s in blk["stmts"]:
                        if s["k"] != "assign":
                            continue
                        l = s["lhs"]["l"]
                        nm = fn.names.get(l)
                        if not s["lhs"]["p"] and nm is not None and nm != "indices":
                            # a named local that lives only inside this region (a `let` of the branch, the parameter of a
                            # helper folded into it) is not state of the enclosing computation
                            used_outside = False
                            for u in uses_of_local(fn, l):
                                ub = u[1]
                                if ub not in region:
                                    used_outside = True
                            if not used_outside:
                                continue
                        if s["lhs"]["p"] or (nm is not None and nm != "indices"):
                            problems.append("writes %s (`%s`)" % (show(fn.expr_of_place(s["lhs"])) if s["lhs"]["p"] else "_%d" % l, nm))
                    if tt["k"] == "return":
                        problems.append("returns from inside the INDICES branch")
                PURE = ("[T]>::iter", "[T]>::last", "[T]>::first", "[T]>::get", "::index", "Iterator::map", "Iterator::enumerate", "Iterator::max", "Iterator::max_by_key",
                        "Iterator::min", "Iterator::rev", "Iterator::copied", "Iterator::cloned", "IntoIterator::into_iter", "::expect", "::unwrap", "Option::<T>::map",
                        "cmp::max", "cmp::min", "From>::from", "::from", "::into", "Iterator::next", "Iterator>::next", "IntoIterator>::into_iter", "Iterator::fold", "Iterator::zip", "Iterator::position")
                soft = [p_ for p_ in problems if p_ == "returns from inside the INDICES branch" or (p_.startswith("calls ") and (any(p_.endswith(x) or x in p_ for x in PURE)))
                        or (p_.startswith("writes _") and "(`None`)" in p_)]
                hard = [p_ for p_ in problems if p_ not in soft]
                # writes to unnamed temporaries are part of evaluating the pure calls
                hard = [p_ for p_ in hard if not (p_.startswith("writes _") and p_.endswith("(`None`)"))]
                if problems and not hard:
                    verdict = _twin_max_sources(fn)
                    if verdict is True:
                        ctx.ok(site(fn, bi), "the INDICES = %s variant computes its score on a path of its own: both variants take the maximum cell score over the same slice" % ("true" if sb == t["otherwise"] else "false"))
                    elif verdict is None:
                        ctx.fail_closed("%s: the INDICES = %s variant computes a value of its own with read-only calls (%s): that the score-only and the indices variant "
                                        "return the same score is not decided" % (fn.path, "true" if sb == t["otherwise"] else "false", "; ".join(sorted(set(problems))[:3])))
                    else:
                        ctx.violation(key + "|twin-source", site(fn, bi), "the score-only and the indices variant take their maximum over different cells: %s — fuzzy_match and fuzzy_indices "
                                      "can return different scores for the same input (cells outside the last row hold shorter-prefix scores or leftovers of earlier calls)" % verdict)
                elif problems:
                    ctx.violation(key, site(fn, bi), "code that runs only when INDICES is %s has an effect besides filling the indices vector: %s — the score of the indices variant can differ from the score-only variant" % ("true" if sb == t["otherwise"] else "false", "; ".join(sorted(set(hard))[:4] + sorted(set(soft))[:2])))
                else:
                    ctx.ok(site(fn, bi), "INDICES-only region touches nothing but the indices vector / back-pointer cells")
        # INDICES is forwarded unchanged to generic callees
        for bi, t in fn.calls(lambda t: t.get("fn_local")):
            cb = facts.body(M, t.get("fn") or "")
            if cb is None:
                continue
            cg = [g["name"] for g in cb.get("generics", []) if g["kind"] == "const"]
            if "INDICES" in cg:
                fa = t.get("fn_args", "")
                if "INDICES" in fa:
                    ctx.ok(site(fn, bi), "INDICES forwarded to %s" % t["fn"].rsplit("::", 1)[-1])
                else:
                    ctx.violation("%s|INDICES-forward|%s" % (fn.path, t["fn"].rsplit("::", 1)[-1]), site(fn, bi),
                                  "%s is instantiated with a fixed INDICES (%s) inside a body that is itself generic over INDICES: one of the two variants loses its indices or computes them needlessly" % (t["fn"], fa))
    ctx.floor("INDICES-guarded regions", nreg, 8)


# ---------------------------------------------------------------- twins (syntax level)

def functions_of(path):
    """{fn name: token texts} for top-level fns and fns inside impl blocks of a source file."""
    toks = refdiff.strip_attributes(refdiff.lex(open(path, encoding="utf-8").read()))
    items, order = refdiff.split_items(toks)
    out = {}
    for name in order:
        it = items[name]
        if name.startswith("fn "):
            out[name[3:]] = [t[1] for t in it]
        elif name.startswith("impl"):
            # body between the first `{` and the last `}`
            texts = [t[1] for t in it]
            i = texts.index("{")
            inner = it[i + 1:-1]
            sub, sorder = refdiff.split_items(inner)
            for sn in sorder:
                if sn.startswith("fn "):
                    out.setdefault(sn[3:].split("#")[0], [t[1] for t in sub[sn]])
    return out


TWINS = [("fuzzy_match", "fuzzy_indices"), ("fuzzy_match_greedy", "fuzzy_indices_greedy"), ("substring_match", "substring_indices"),
         ("exact_match", "exact_indices"), ("prefix_match", "prefix_indices"), ("postfix_match", "postfix_indices")]


def norm_twin_raw(tx):
    s = " " + " ".join(tx) + " "
    s = re.sub(r"^ (pub )?fn \w+", " fn F", s)
    s = s.replace(":: < true >", ":: < B >").replace(":: < false >", ":: < B >")
    s = s.replace("& mut Vec :: new ( )", "indices")
    s = s.replace(", indices : & mut Vec < u32 > , )", ", )").replace(", indices : & mut Vec < u32 > )", " )")
    s = s.replace(", )", " )")
    s = re.sub(r"\s+", " ", s).strip()
    return s.split(" ")


def twin_tokens(tx):
    raw = norm_twin_raw(tx)
    toks = [("ident" if re.match(r"^[A-Za-z_]\w*$", x) else "punct", x) for x in raw]
    return refdiff.renumber(refdiff.alpha(toks))


def rule_twins(ctx):
    path = os.path.join(REPO, "matcher", "src", "lib.rs")
    fns = functions_of(path)
    for a, b in TWINS:
        if a not in fns or b not in fns:
            ctx.violation("Matcher|twin|%s" % a, "matcher/src/lib.rs", "public pair %s / %s not found" % (a, b))
            continue
        xa, xb = twin_tokens(fns[a]), twin_tokens(fns[b])
        if xa == xb:
            ctx.ok("matcher/src/lib.rs (%s / %s)" % (a, b), "bodies equal modulo INDICES, the callee's const argument and the vector argument (%d tokens)" % len(xa))
        else:
            i = 0
            while i < min(len(xa), len(xb)) and xa[i] == xb[i]:
                i += 1
            ctx.violation("Matcher|twin|%s" % a, "matcher/src/lib.rs (%s / %s)" % (a, b),
                          "the score-only and the indices variant differ beyond INDICES: `%s` vs `%s` — the two variants can accept different inputs or return different scores" % (" ".join(xa[max(0, i - 5):i + 6]), " ".join(xb[max(0, i - 5):i + 6])))
    # MIR cross-check: each twin instantiates the same impl with false / true
    facts = ctx.facts
    for a, b in TWINS:
        fa = get_fn(facts, M, "Matcher::" + a)
        fb = get_fn(facts, M, "Matcher::" + b)

        def impl_call(fn):
            cs = [(bi, t) for bi, t in fn.calls(lambda t: t.get("fn_local") and ("_impl" in (t.get("fn") or "")))]
            return cs
        ca, cb = impl_call(fa), impl_call(fb)
        if len(ca) == 1 and len(cb) == 1 and ca[0][1]["fn"] == cb[0][1]["fn"] and "false" in ca[0][1]["fn_args"] and "true" in cb[0][1]["fn_args"]:
            ctx.ok(site(fa, ca[0][0]), "%s::<false> / ::<true>" % ca[0][1]["fn"].rsplit("::", 1)[-1])
        else:
            ctx.violation("Matcher|twin-impl|%s" % a, site(fa, 0), "%s and %s do not instantiate one shared implementation with INDICES = false / true: %s vs %s" % (
                a, b, [(t["fn"], t["fn_args"]) for _, t in ca], [(t["fn"], t["fn_args"]) for _, t in cb]))


def rule_one_per_char(ctx):
    facts = ctx.facts
    cs = get_fn(facts, M, "score::<impl Matcher>::calculate_score")
    il = indices_local(cs)
    rs = [(bi, t) for bi, t in cs.calls(lambda t: callee(t).endswith("::reserve"))]
    okr = False
    for bi, t in rs:
        e = cs.expr_of_operand(t["args"][1])
        if e[0] == "call" and str(e[1]).endswith("::len") and "needle" in show(e[2][0]):
            okr = True
    if okr:
        ctx.ok(site(cs, rs[0][0]), "calculate_score reserves len(needle) entries")
    else:
        ctx.note("calculate_score does not reserve len(needle) (performance only)")
        ctx.ok(site(cs, 0), "reserve is optional")
    rp = get_fn(facts, M, "fuzzy_optimal::<impl matrix::MatcherDataView<'_, H>>::reconstruct_optimal_path")
    rz = [(bi, t) for bi, t in rp.calls(lambda t: callee(t).endswith("::resize"))]
    good = False
    def at_len(x):
        x = strip_casts(x)
        if x[0] == "call" and str(x[1]).endswith("::len") and x[2]:
            what = show(x[2][0])
            if "indices" in what:
                return "LEN(indices)"
            if "row_offs" in what:
                return "LEN(row_offs)"
        return None
    for bi, t in rz:
        e = strip_casts(rp.expr_of_operand(t["args"][1]))
        # old length + one entry per row, however it is spelled (`len + rows.len()`, `len + last_row + 1`)
        if poly_of(e, at_len) == Poly.atom("LEN(indices)") + Poly.atom("LEN(row_offs)"):
            good = True
    if good:
        ctx.ok(site(rp, rz[0][0]), "reconstruct_optimal_path grows the vector by len(row_offs) = len(needle)")
    else:
        ctx.violation(rp.path + "|resize|1", site(rp, 0), "reconstruct_optimal_path does not grow the indices vector by exactly one entry per needle character (old_len + row_offs.len())")


def rule_backpointers(ctx):
    """Index reconstruction follows the DP's back-pointers: they must say `came from a match` exactly
    when the match branch won (shared with C04.cell-equations)."""
    from props.c04 import rule_cell_equations
    rule_cell_equations(ctx)


def rule_rewalk_normalized(ctx):
    """The index re-walk (calculate_score, shared by greedy / substring / prefix / postfix / exact and the contiguous
    fuzzy case) compares NORMALIZED haystack characters with the needle, like the deciders that accepted the match:
    a raw comparison skips matched positions and reports fewer indices than needle characters."""
    from props.c01 import rule_norm_route
    rule_norm_route(ctx, only=("score::<impl Matcher>::calculate_score",), floor=1)


GREEDY = "fuzzy_greedy::<impl Matcher>::fuzzy_match_greedy_"


def rule_greedy_disjoint(ctx):
    """Greedy matcher: the needle character at `start` is consumed by needle[0]; the forward scan that looks for
    needle[1..] must therefore begin behind it.  Where the scan begins at the caller-supplied `end`, every call site of a
    non-ASCII instantiation must pass `end >= start + 1` (followed through callers that forward their own parameter).
    Otherwise one haystack character can serve two needle characters (needle "aab"), the window [start, end) is too
    short for the needle and the re-walk reports a truncated index list with Some(score)."""
    from cfg import poly_of, Poly
    from props.c11 import for_loops
    from common import iter_pipeline
    facts = ctx.facts
    fn = get_fn(facts, M, GREEDY)
    names = {fn.names.get(l): l for l in range(1, fn.arg_count + 1)}
    if not all(k in names for k in ("haystack", "needle", "start", "end")):
        raise Inconclusive("fuzzy_match_greedy_: parameters haystack/needle/start/end not found")
    P_START, P_END = names["start"], names["end"]

    def is_param(x, l):
        x = strip_casts(x)
        while x[0] in ("ref", "deref"):
            x = strip_casts(x[1])
        return x[0] == "arg" and x[1] == l

    def from_needle_tail(e):
        """iterator over needle[1..] ?"""
        for x in walk(e):
            if x[0] == "call" and str(x[1]).endswith("::index") and is_param(x[2][0], names["needle"]):
                r = x[2][1]
                if r[0] == "agg" and str(r[1]).endswith("RangeFrom::RangeFrom") and isinstance(r[2], dict) and tuple(strip_casts(r[2].get("start", ("?",)))[:2]) == ("const", 1):
                    return True
        return False
    # every forward view `haystack[X..]` taken in the greedy matcher (loop source, `position` receiver, re-slicing, in the
    # function itself or in helpers folded into it) is a place where the search for needle[1..] (re)starts
    fwd = []
    for bi, t in fn.calls(lambda t: callee(t).endswith("::index")):
        if len(t["args"]) < 2 or not is_param(fn.expr_of_operand(t["args"][0]), names["haystack"]):
            continue
        r = strip_casts(fn.expr_of_operand(t["args"][1]))
        if r[0] == "agg" and str(r[1]).endswith("RangeFrom::RangeFrom") and isinstance(r[2], dict) and "start" in r[2]:
            fwd.append((bi, r[2]["start"]))

    def atom(x):
        if is_param(x, P_START):
            return "S"
        if is_param(x, P_END):
            return "E"
        return None

    def unchecked(e):
        if not isinstance(e, tuple) or not e:
            return e
        if e[0] == "field" and isinstance(e[1], tuple) and e[1] and e[1][0] == "checked" and e[2] == "0":
            return ("bin", e[1][1], unchecked(e[1][2]), unchecked(e[1][3]))
        return tuple(unchecked(x) if isinstance(x, tuple) else x for x in e)

    def candidates(e, at, depth=0, stack=(), fn=fn):
        """values the expression can have at block `at` (reaching definitions of its locals).  A definition of the form
        `x = x + e` (unsigned, checked) only moves x forward: the candidates are those of the other definitions."""
        e = unchecked(strip_casts(e))
        if e[0] in ("local", "arg") and not (e[0] == "arg" and len(fn.defs.get(e[1], [])) <= 1):
            if e[1] in stack:
                return [("self", e[1])]
            if depth > 6:
                return [e]
            out = []
            for _, _, d in fn.def_exprs(e[1], at=at):
                d = unchecked(strip_casts(d))
                if d[0] == "arg" and d[1] == e[1]:
                    out.append(d)
                    continue
                for c in candidates(d, at, depth + 1, stack + (e[1],), fn):
                    if any(isinstance(x, tuple) and x and x[0] == "self" and x[1] == e[1] for x in walk(c)):
                        c0 = c
                        # x + (something unsigned): monotone, adds no new lower bound
                        if c0[0] == "bin" and c0[1] == "Add" and (c0[2] == ("self", e[1]) or c0[3] == ("self", e[1])):
                            continue
                        raise Inconclusive("fuzzy_match_greedy_: %s is updated by %s" % (fn.names.get(e[1], "_%d" % e[1]), show(c0)[:80]))
                    out.append(c)
            return out
        if e[0] == "bin" and e[1] in ("Add", "Sub"):
            return [("bin", e[1], a_, b_) for a_ in candidates(e[2], at, depth + 1, stack, fn) for b_ in candidates(e[3], at, depth + 1, stack, fn)]
        return [e]
    if not fwd:
        # the walk has moved to the callers (the greedy matcher takes a complete window): judge the forward views there,
        # relative to the `start` each caller passes on
        n_ext = 0
        for f2, cbi, ct in calls_to(facts, M, lambda t_: callee(t_) == GREEDY):
            hay_e = strip_casts(f2.expr_of_operand(ct["args"][names["haystack"] - 1]))
            start_e = strip_casts(f2.expr_of_operand(ct["args"][P_START - 1]))
            for bi, t in f2.calls(lambda t: callee(t).endswith("::index")):
                if len(t["args"]) < 2 or bi not in f2.reach_from(0) or cbi not in f2.reach_from(bi):
                    continue
                b0 = strip_casts(f2.expr_of_operand(t["args"][0]))
                h0 = hay_e
                while b0[0] in ("ref", "deref"):
                    b0 = strip_casts(b0[1])
                while h0[0] in ("ref", "deref"):
                    h0 = strip_casts(h0[1])
                if repr(b0) != repr(h0):
                    continue
                r = strip_casts(f2.expr_of_operand(t["args"][1]))
                if not (r[0] == "agg" and str(r[1]).endswith("RangeFrom::RangeFrom") and isinstance(r[2], dict) and "start" in r[2]):
                    continue
                n_ext += 1

                def at2(x, start_e=start_e):
                    return "S" if repr(strip_casts(x)) == repr(start_e) else None
                for c in candidates(r[2]["start"], bi, fn=f2):
                    d = poly_of(c, at2) - Poly.atom("S")
                    if not d.atoms() and not d.has_opaque():
                        k = int(d.t.get((), 0))
                        if k >= 1:
                            ctx.ok(site(f2, bi), "forward scan (in the caller) starts at start + %d" % k)
                        else:
                            ctx.violation("%s|forward-scan|start" % f2.path, site(f2, bi),
                                          "the forward scan for needle[1..] starts at start + %d, i.e. on the character that needle[0] has already consumed" % k)
                    else:
                        raise Inconclusive("%s: forward scan starts at %s" % (f2.path, show(c)[:100]))
            # the same walk written as `tail.iter().try_fold(from, |pos, c| Some(pos + haystack[pos..].position(..)? + 1))`:
            # the view starts at the accumulator, whose first value is `from` and which only grows
            for fb, ft in f2.calls(lambda t: str(t.get("fn")).endswith("Iterator::try_fold")):
                if cbi not in f2.reach_from(fb):
                    continue
                clo = f2.expr_of_operand(ft["args"][2]) if len(ft["args"]) > 2 else None
                if not clo or clo[0] != "closure":
                    continue
                cf = get_fn(facts, M, clo[1])
                views = []
                for bi, t in cf.calls(lambda t: callee(t).endswith("::index")):
                    if len(t["args"]) < 2:
                        continue
                    r = strip_casts(cf.expr_of_operand(t["args"][1]))
                    if r[0] == "agg" and str(r[1]).endswith("RangeFrom::RangeFrom") and isinstance(r[2], dict) and "start" in r[2]:
                        views.append((bi, strip_casts(r[2]["start"])))
                for bi, x in views:
                    if not (x[0] == "arg" and x[1] == 2):
                        raise Inconclusive("%s: forward view inside a fold closure starts at %s" % (f2.path, show(x)[:80]))
                    n_ext += 1

                    def at2(y, start_e=start_e):
                        return "S" if repr(strip_casts(y)) == repr(start_e) else None
                    d = poly_of(unchecked(strip_casts(f2.expr_of_operand(ft["args"][1]))), at2) - Poly.atom("S")
                    if d.atoms() or d.has_opaque():
                        raise Inconclusive("%s: initial value of the fold accumulator %s" % (f2.path, show(f2.expr_of_operand(ft["args"][1]))[:80]))
                    k = int(d.t.get((), 0))
                    # the accumulator only moves forward: every Some(..) the closure returns is acc + (something unsigned)
                    from cfg import decision_paths
                    mono = True
                    for conds, res in decision_paths(cf):
                        if res is not None and res[0] == "agg" and str(res[1]).endswith("Option::Some"):
                            v = unchecked(strip_casts(res[2].get("0")))
                            ok_ = False
                            y = v
                            while y[0] == "bin" and y[1] == "Add":
                                if strip_casts(y[2]) == ("arg", 2, cf.names.get(2)) or (strip_casts(y[2])[0] == "arg" and strip_casts(y[2])[1] == 2) or (strip_casts(y[3])[0] == "arg" and strip_casts(y[3])[1] == 2):
                                    ok_ = True
                                    break
                                y = strip_casts(y[2])
                            mono = mono and ok_
                    if k >= 1 and mono:
                        ctx.ok(site(cf, bi), "forward scan (fold over needle[1..]) starts at start + %d and only moves forward" % k)
                    elif k < 1:
                        ctx.violation("%s|forward-scan|start" % f2.path, site(cf, bi),
                                      "the forward scan for needle[1..] starts at start + %d, i.e. on the character that needle[0] has already consumed" % k)
                    else:
                        raise Inconclusive("%s: the fold accumulator is not monotone" % f2.path)
        ctx.floor("forward views haystack[X..] in the greedy matcher or its callers", n_ext, 1)
        return
    ctx.floor("forward views haystack[X..] in the greedy matcher", len(fwd), 1)
    need_contract = False
    for h, x in fwd:
        for c in candidates(x, h):
            pl = poly_of(c, atom)
            d = pl - Poly.atom("S")
            if not d.atoms() and not pl.has_opaque():
                k = int(d.t.get((), 0))
                if k >= 1:
                    ctx.ok(site(fn, h), "forward scan starts at start + %d: behind the character consumed by needle[0]" % k)
                else:
                    ctx.violation(GREEDY + "|forward-scan|start", site(fn, h),
                                  "the forward scan for needle[1..] starts at start + %d, i.e. on the character that needle[0] has already consumed: with needle[0] == needle[1] "
                                  "(\"aab\") one haystack character serves both, the window is too short for the needle and Some(score) is returned with a truncated index list" % k)
            elif not (pl - Poly.atom("E")).atoms() and not pl.has_opaque() and int((pl - Poly.atom("E")).t.get((), 0)) >= 0:
                need_contract = True
            else:
                raise Inconclusive("fuzzy_match_greedy_: forward scan starts at %s" % show(c)[:100])
    if not need_contract:
        return
    # contract `end >= start + 1` at the call sites (non-ASCII instantiations; the scan is compiled out for ASCII x ASCII
    # when it is guarded by the ASCII constants)
    guarded = all(any("ASCII" in show(g[3]) for g in guards_of(fn, h)) for h, _ in fwd)

    def pair_gap_ok(path):
        """Does `path` return Some((a, b)) only with b >= a + 1 (literally, or behind a `b - a < needle.len()` ⇒ None test)?"""
        from cfg import decision_paths
        b = facts.body(M, path)
        if b is None:
            return False
        g = fn_of(b)

        def opaque(x):
            x = strip_casts(x)
            if x[0] in ("bin", "checked") and x[1] in ("Add", "Sub", "Mul"):
                return None
            if x[0] == "const" and isinstance(x[1], int):
                return None
            if x[0] == "field" and isinstance(x[1], tuple) and x[1] and x[1][0] == "checked":
                return None
            return "v:" + repr(x)
        try:
            paths = decision_paths(g)
        except Inconclusive:
            return False
        n_some = 0
        for conds, res in paths:
            if res is None or not (res[0] == "agg" and str(res[1]).endswith("Option::Some")):
                continue
            tup = strip_casts(res[2].get("0"))
            if tup[0] != "tuple" or len(tup[1]) != 2:
                return False
            n_some += 1
            gap = poly_of(unchecked(tup[1][1]), opaque) - poly_of(unchecked(tup[1][0]), opaque)
            if not gap.atoms() and int(gap.t.get((), 0)) >= 1:
                continue
            okp = False
            for d, chosen, allv in conds:
                d = unchecked(strip_casts(d))
                if d[0] == "bin" and d[1] == "Lt" and chosen == 0:
                    lhs = poly_of(d[2], opaque)
                    rhs = strip_casts(d[3])
                    if (lhs - gap).t == {} or all(v == 0 for v in (lhs - gap).t.values()):
                        if rhs[0] == "call" and str(rhs[1]).endswith("::len") and "needle" in show(rhs):
                            okp = True       # gap >= needle.len() >= 1 (empty needles never get here: C01.entry-order)
            if not okp:
                return False
        return n_some > 0

    def check_site(f2, bi, t, si, ei, depth):
        fa = [str(x) for x in (t.get("fn_args") or [])]
        both_ascii = len(fa) >= 3 and fa[-2].endswith("AsciiChar") and fa[-1].endswith("AsciiChar")
        if both_ascii and guarded:
            ctx.ok(site(f2, bi), "ASCII x ASCII instantiation: forward scan compiled out, `end` comes from prefilter_ascii")
            return
        s_e = strip_casts(f2.expr_of_operand(t["args"][si]))
        e_e0 = strip_casts(f2.expr_of_operand(t["args"][ei]))
        if e_e0[0] == "local" and len(f2.defs.get(e_e0[1], [])) > 1:
            # a local chosen on several paths (`let end = if .. { a } else { b }`): every choice has to satisfy the contract
            for c_ in candidates(e_e0, bi, fn=f2):
                check_value(f2, bi, t, s_e, strip_casts(c_), depth)
            return
        # (start, end) carried in a private enum / struct assigned on several paths: judged per definition, pairwise
        from common import alternatives_tagged, tags_agree
        sa, ea = alternatives_tagged(f2, s_e), alternatives_tagged(f2, e_e0)
        if len(sa) > 1 or len(ea) > 1 or repr(sa[0][1]) != repr(s_e) or repr(ea[0][1]) != repr(e_e0):
            from common import resolve_under
            pairs = [(resolve_under(f2, s1, tuple(ts) + tuple(te)), resolve_under(f2, e1, tuple(ts) + tuple(te))) for ts, s1 in sa for te, e1 in ea if tags_agree(ts, te) and tags_agree(te, ts)]
            if pairs:
                for s1, e1 in pairs:
                    check_value(f2, bi, t, strip_casts(s1), strip_casts(e1), depth)
                return
        check_value(f2, bi, t, s_e, e_e0, depth)

    def check_value(f2, bi, t, s_e, e_e, depth):

        def at2(x):
            return "S" if repr(strip_casts(x)) == repr(s_e) else None
        d = poly_of(e_e, at2) - Poly.atom("S")
        if not d.atoms() and not d.has_opaque():
            k = int(d.t.get((), 0))
            if k >= 1:
                ctx.ok(site(f2, bi), "call passes end = start + %d" % k)
            else:
                ctx.violation("%s|greedy-end|%s" % (f2.path, callee(t).rsplit("::", 1)[1]), site(f2, bi),
                              "non-ASCII call passes end = start + %d: the greedy forward scan then starts on the character needle[0] has consumed" % k)
            return
        # prefilter_ascii(..) = (start, greedy_end, end) with greedy_end >= start + 1 by construction
        if s_e[0] == "field" and e_e[0] == "field" and repr(s_e[1]) == repr(e_e[1]) and s_e[2] == "0" and e_e[2] in ("1", "2") and "prefilter_ascii" in show(s_e[1]):
            ctx.ok(site(f2, bi), "(start, end) are components 0 and %s of one prefilter_ascii result (end > start by construction)" % e_e[2])
            return
        # two components of one call result whose callee returns (a, b) with b > a on every Some path
        if s_e[0] == "field" and e_e[0] == "field" and s_e[2] == "0" and e_e[2] == "1":
            b0, b1 = s_e[1], e_e[1]
            same = repr(b0) == repr(b1)
            src = [x for x in walk(b0) if x[0] == "call" and not str(x[1]).endswith("Try>::branch")]
            if same and src and pair_gap_ok(str(src[0][1])):
                ctx.ok(site(f2, bi), "(start, end) are the two components of one %s result, which returns end > start on every Some path" % str(src[0][1]).rsplit("::", 1)[1])
                return
        # forwarded parameters of the caller
        if s_e[0] == "arg" and e_e[0] == "arg" and depth < 3:
            n = 0
            for f3, b3, t3 in calls_to(facts, M, lambda t_: callee(t_) == f2.path):
                n += 1
                check_site(f3, b3, t3, s_e[1] - 1, e_e[1] - 1, depth + 1)
            if n:
                return
        raise Inconclusive("%s: cannot relate the `end` argument %s to `start` %s" % (f2.path, show(e_e)[:80], show(s_e)[:80]))
    n = 0
    for f2, bi, t in calls_to(facts, M, lambda t_: callee(t_) == GREEDY):
        n += 1
        check_site(f2, bi, t, P_START - 1, P_END - 1, 0)
    ctx.floor("call sites of fuzzy_match_greedy_", n, 4)


def rule_greedy_complete(ctx):
    """A window that does not contain the needle makes the re-walk report a truncated index list with Some(score):
    the greedy matcher must have walked needle[1..] itself before it scores (shared with C01.greedy-complete)."""
    from props.c01 import rule_greedy_complete as r
    r(ctx)


def rule_char_eq_exact(ctx):
    """The indices point at matching characters rest on `haystack_char == needle_char` being exact code point equality for every pair of character
    types (shared with C01.char-eq-exact)."""
    from props.c01 import rule_char_eq_exact as r
    r(ctx)


def rule_fold_lookup(ctx):
    """A window accepted by `normalize` and re-walked by `char_class_and_normalize` yields one index per needle character only if both fold alike: to_lower_case / is_upper_case are exactly the fold-table lookup (shared with C16.dispatch)."""
    from props.c16 import rule_dispatch as r
    r(ctx)


def rules(ctx):
    ctx.run_rule("C02.fold-lookup", rule_fold_lookup)
    ctx.run_rule("C02.char-eq-exact", rule_char_eq_exact)
    ctx.run_rule("C02.rewalk-normalized", rule_rewalk_normalized)
    ctx.run_rule("C02.backpointers", rule_backpointers)
    ctx.run_rule("C02.append-only", rule_append_only)
    ctx.run_rule("C02.no-push-on-none", rule_no_push_on_none)
    ctx.run_rule("C02.indices-guard", rule_indices_guard)
    ctx.run_rule("C02.twins", rule_twins)
    ctx.run_rule("C02.one-per-char", rule_one_per_char)
    ctx.run_rule("C02.greedy-disjoint", rule_greedy_disjoint)
    ctx.run_rule("C02.greedy-complete", rule_greedy_complete)

"""Finite-domain evaluation of extracted decision tables.

`decision_paths` turns a loop-free body into [(conditions, result-expression)].  For functions whose inputs range
over a small finite domain (a byte, an enum, a few configuration booleans) the table can be evaluated for EVERY
input, with std helpers given by small models (u8::is_ascii_uppercase, to_ascii_lowercase, …) and crate-local
callees evaluated through their own decision tables.  The answer is the function's complete input→output table,
independent of how the source spells it (if-chains, matches, range patterns, helper functions, std predicates).
Nothing of the crate is executed: what is evaluated is the expression trees extracted from MIR."""
from cfg import Inconclusive, decision_paths, strip_casts, show


class Unknown(Exception):
    pass


def _is_ws(b):
    return b in (0x20, 0x09, 0x0A, 0x0C, 0x0D)


STD_MODELS = {
    "is_ascii_uppercase": lambda b: int(65 <= b <= 90),
    "is_ascii_lowercase": lambda b: int(97 <= b <= 122),
    "is_ascii_digit": lambda b: int(48 <= b <= 57),
    "is_ascii_alphabetic": lambda b: int(65 <= b <= 90 or 97 <= b <= 122),
    "is_ascii_alphanumeric": lambda b: int(65 <= b <= 90 or 97 <= b <= 122 or 48 <= b <= 57),
    "is_ascii_whitespace": lambda b: int(_is_ws(b)),
    "is_ascii_punctuation": lambda b: int(33 <= b <= 47 or 58 <= b <= 64 or 91 <= b <= 96 or 123 <= b <= 126),
    "is_ascii": lambda b: int(b < 128),
    "to_ascii_lowercase": lambda b: b + 32 if 65 <= b <= 90 else b,
    "to_ascii_uppercase": lambda b: b - 32 if 97 <= b <= 122 else b,
}


class Evaluator:
    def __init__(self, facts, crate, enums=None, max_depth=6):
        self.facts = facts
        self.crate = crate
        self.max_depth = max_depth
        self._paths = {}
        self.enum_discr = {}
        for a in facts.crate(crate)["adts"]:
            if a.get("kind") == "enum" or len(a["variants"]) > 1:
                for v in a["variants"]:
                    self.enum_discr[(a["path"].rsplit("::", 1)[-1], v["name"])] = v.get("discr")

    def paths(self, fn):
        k = fn.path
        if k not in self._paths:
            self._paths[k] = decision_paths(fn)
        return self._paths[k]

    # ------------------------------------------------------------------ values
    # int | ('enum', Type, Variant) | ('struct', Type, {field: v}) | ('tuple', [v]) | ('opt', None | v) | ('bytes', b'..')
    def discr(self, v):
        if isinstance(v, tuple) and v[0] == "enum":
            d = self.enum_discr.get((v[1], v[2]))
            if d is None:
                raise Unknown("discriminant of %s::%s" % (v[1], v[2]))
            return d
        if isinstance(v, tuple) and v[0] == "opt":
            return 0 if v[1] is None else 1
        if isinstance(v, tuple) and v[0] == "res":
            return 0 if v[1] == "Ok" else 1
        raise Unknown("discriminant of %r" % (v,))

    def field(self, v, name):
        if isinstance(v, tuple) and v[0] == "struct":
            if name in v[2]:
                return v[2][name]
            raise Unknown("field %s of %s" % (name, v[1]))
        if isinstance(v, tuple) and v[0] == "tuple" and name.isdigit() and int(name) < len(v[1]):
            return v[1][int(name)]
        if isinstance(v, tuple) and v[0] == "opt" and name == "0" and v[1] is not None:
            return v[1]
        if isinstance(v, tuple) and v[0] == "res" and name == "0":
            return v[2]
        raise Unknown("field %s of %r" % (name, v))

    # ------------------------------------------------------------------ expressions
    def ev(self, e, args, depth=0):
        k = e[0]
        if k == "const":
            v = e[1]
            if isinstance(v, bool):
                return int(v)
            if isinstance(v, int):
                return v
            if isinstance(v, str) and len(e) > 3:
                return ("enum", str(e[3]).rsplit("::", 1)[-1], v)
            raise Unknown("constant %r" % (v,))
        if k == "arg":
            if e[1] in args:
                return args[e[1]]
            raise Unknown("unbound parameter _%d" % e[1])
        if k in ("ref", "deref"):
            return self.ev(e[1], args, depth)
        if k == "cast":
            v = self.ev(e[2], args, depth)
            if isinstance(v, tuple) and v[0] == "enum":
                return self.discr(v)
            if isinstance(v, tuple) and v[0] in ("bytes", "str", "list") and ("Unsize" in str(e[1]) or "Ptr" in str(e[1])):
                return v          # &[u8; N] -> &[u8] and friends
            if isinstance(v, int):
                to = str(e[4]) if len(e) > 4 else ""
                if to == "u8":
                    return v & 0xFF
                return v
            raise Unknown("cast of %r" % (v,))
        if k == "constx" and isinstance(e[1], str) and e[1].startswith('"') and str(e[2]).endswith("str"):
            import ast
            try:
                return ("str", ast.literal_eval(e[1]))
            except Exception:
                raise Unknown("string constant %s" % e[1])
        if k == "constx" and isinstance(e[1], str) and e[1].startswith('b"') and "u8" in str(e[2]):
            import ast
            try:
                return ("bytes", ast.literal_eval(e[1]))
            except Exception:
                raise Unknown("byte string constant %s" % e[1])
        if k in ("static",) or (k == "constx" and self.facts.const(self.crate, str(e[1])) is not None and isinstance(self.facts.const(self.crate, str(e[1])).get("value"), list)):
            kd = self.facts.const(self.crate, str(e[1]))
            if kd is None or not isinstance(kd.get("value"), list):
                raise Unknown("static %s" % (e[1],))
            return ("table", str(e[1]))
        if k == "index":
            base = self.ev(e[1], args, depth)
            i = self.ev(e[2], args, depth)
            if isinstance(base, tuple) and base[0] == "table" and isinstance(i, int):
                data = self.facts.const(self.crate, base[1])["value"]
                if not 0 <= i < len(data):
                    raise Unknown("table index out of bounds (would panic)")
                x = data[i]
                return ("tuple", list(x)) if isinstance(x, list) else x
            if isinstance(base, tuple) and base[0] == "bytes" and isinstance(i, int):
                if not 0 <= i < len(base[1]):
                    raise Unknown("index out of bounds (would panic)")
                return base[1][i]
            raise Unknown("index into %r" % (base,))
        if k == "cindex":
            v = self.ev(e[1], args, depth)
            if isinstance(v, tuple) and v[0] in ("bytes", "str"):
                data = v[1].encode() if v[0] == "str" else v[1]
                i = (len(data) - e[2]) if e[3] else e[2]
                if 0 <= i < len(data):
                    return data[i]
                raise Unknown("constant index out of bounds (would panic)")
            raise Unknown("constant index into %r" % (v,))
        if k == "subslice":
            v = self.ev(e[1], args, depth)
            if isinstance(v, tuple) and v[0] == "bytes":
                return ("bytes", v[1][e[2]:(len(v[1]) - e[3]) if e[4] else e[3]])
            raise Unknown("subslice")
        if k == "field":
            return self.field(self.ev(e[1], args, depth), e[2])
        if k == "downcast":
            return self.ev(e[1], args, depth)
        if k == "discr":
            return self.discr(self.ev(e[1], args, depth))
        if k == "agg":
            path = str(e[1])
            ty, _, var = path.rpartition("::")
            tname = ty.rsplit("::", 1)[-1]
            fields = {n: self.ev(x, args, depth) for n, x in e[2].items()}
            if (tname, var) in self.enum_discr and not fields:
                return ("enum", tname, var)
            if tname == "Option" or path.endswith("Option::Some") or path.endswith("Option::None"):
                return ("opt", fields.get("0")) if var == "Some" else ("opt", None)
            return ("struct", tname if tname != var else var, fields)
        if k == "aggx" and e[1] == "array":
            return ("array", [self.ev(x, args, depth) for x in e[2]])
        if k == "upd":
            base = self.ev(e[1], args, depth)
            if isinstance(base, tuple) and base[0] == "struct":
                d = dict(base[2])
                for n, x in e[2].items():
                    d[n] = self.ev(x, args, depth)
                return ("struct", base[1], d)
            raise Unknown("field update of %r" % (base,))
        if k == "tuple":
            return ("tuple", [self.ev(x, args, depth) for x in e[1]])
        if k == "un":
            v = self.ev(e[2], args, depth)
            if e[1] == "Not":
                return int(not v)
            if e[1] == "Neg":
                return -v
            if e[1] == "PtrMetadata" and isinstance(v, tuple) and v[0] in ("bytes", "str"):
                return len(v[1].encode() if v[0] == "str" else v[1])
            raise Unknown("unary %s" % e[1])
        if k in ("bin", "checked"):
            a, b = self.ev(e[2], args, depth), self.ev(e[3], args, depth)
            op = e[1]
            if isinstance(a, tuple) or isinstance(b, tuple):
                if op in ("Eq", "Ne") and isinstance(a, tuple) and isinstance(b, tuple):
                    return int((a == b) == (op == "Eq"))
                raise Unknown("operator %s on non-integers" % op)
            ty = str(e[4]) if len(e) > 4 else ""
            r = {"Add": a + b, "Sub": a - b, "Mul": a * b, "BitAnd": a & b, "BitOr": a | b, "BitXor": a ^ b,
                 "Eq": int(a == b), "Ne": int(a != b), "Lt": int(a < b), "Le": int(a <= b), "Gt": int(a > b), "Ge": int(a >= b)}.get(op)
            if r is None:
                if op == "Shl":
                    r = a << b
                elif op == "Shr":
                    r = a >> b
                else:
                    raise Unknown("operator %s" % op)
            if ty == "u8" and op in ("Add", "Sub", "Mul"):
                if not 0 <= r <= 255:
                    raise Unknown("u8 overflow (would panic)")
            return r
        if k == "overflowflag":
            return 0
        if k == "call":
            return self.ev_call(e, args, depth)
        if k == "closure":
            return ("clo", e[1], {k_: self.ev(x_, args, depth) for k_, x_ in ((e[2] or {}) if len(e) > 2 else {}).items()})
        raise Unknown("expression %s" % show(e)[:80])

    def ev_call(self, e, args, depth):
        name = str(e[1])
        fnname = str(e[3]) if len(e) > 3 and e[3] else ""
        short = name.rsplit("::", 1)[-1]
        vals = None

        def argv():
            return [self.ev(a, args, depth) for a in e[2]]
        if "<impl u8>::" in name and short in ("wrapping_sub", "wrapping_add", "wrapping_mul", "saturating_sub", "saturating_add",
                                                 "checked_sub", "checked_add", "abs_diff", "min", "max", "eq_ignore_ascii_case"):
            a, b = argv()
            if isinstance(a, int) and isinstance(b, int):
                if short == "wrapping_sub":
                    return (a - b) & 0xFF
                if short == "wrapping_add":
                    return (a + b) & 0xFF
                if short == "wrapping_mul":
                    return (a * b) & 0xFF
                if short == "saturating_sub":
                    return max(0, a - b)
                if short == "saturating_add":
                    return min(255, a + b)
                if short == "checked_sub":
                    return ("opt", a - b) if a >= b else ("opt", None)
                if short == "checked_add":
                    return ("opt", a + b) if a + b <= 255 else ("opt", None)
                if short == "abs_diff":
                    return abs(a - b)
                if short in ("min", "max"):
                    return min(a, b) if short == "min" else max(a, b)
                if short == "eq_ignore_ascii_case":
                    lo = STD_MODELS["to_ascii_lowercase"]
                    return int(lo(a) == lo(b))
        if "<impl str>::" in name or "str::traits::" in name or "<str as" in name:
            r = self._str_model(short, name, e, args, depth)
            if r is not NotImplemented:
                return r
        if short in STD_MODELS and ("u8" in name or "char" in name or "core::" in name or "std::" in name):
            v = argv()[0]
            if isinstance(v, int):
                return STD_MODELS[short](v)
            raise Unknown("%s of a non-integer" % short)
        if "<impl str>::" in name or "str::traits::" in name or "<str as" in name:
            r = self._str_model(short, name, e, args, depth)
            if r is not NotImplemented:
                return r
        if fnname in ("std::ops::Fn::call", "std::ops::FnMut::call_mut", "std::ops::FnOnce::call_once") or name in ("std::ops::Fn::call", "std::ops::FnMut::call_mut", "std::ops::FnOnce::call_once"):
            f = self.ev(e[2][0], args, depth)
            if isinstance(f, tuple) and f[0] == "clo":
                from common import fn_of
                cb = self.facts.body(self.crate, f[1])
                if cb is None:
                    raise Unknown("closure body %s" % f[1])
                tup = self.ev(e[2][1], args, depth) if len(e[2]) > 1 else ("tuple", [])
                xs = tup[1] if isinstance(tup, tuple) and tup[0] == "tuple" else [tup]
                return self.call(fn_of(cb), [("struct", "closure", f[2])] + list(xs), depth + 1)
            raise Unknown("call of a function value that is not a closure literal")
        if short in ("binary_search_by_key", "binary_search_by", "binary_search"):
            tb = self.ev(e[2][0], args, depth)
            if not (isinstance(tb, tuple) and tb[0] == "table"):
                raise Unknown("binary search on something that is not a constant table")
            data = self.facts.const(self.crate, tb[1])["value"]
            from common import fn_of

            def clo_call(clo, x):
                cb = self.facts.body(self.crate, clo[1])
                if cb is None:
                    raise Unknown("closure body %s" % clo[1])
                env = ("struct", "closure", {k_: self.ev(x_, args, depth) for k_, x_ in (clo[2] or {}).items()})
                return self.call(fn_of(cb), [env, x], depth + 1)
            if short == "binary_search_by_key":
                target = self.ev(e[2][1], args, depth)
                clo = e[2][2]
                # the table is sorted by the key (C16.table-algebra); evaluate the key closure on the candidates only
                lo, hi = 0, len(data)
                while lo < hi:
                    mid = (lo + hi) // 2
                    x = data[mid]
                    kx = clo_call(clo, ("tuple", list(x)) if isinstance(x, list) else x)
                    if kx == target:
                        return ("res", "Ok", mid)
                    if kx < target:
                        lo = mid + 1
                    else:
                        hi = mid
                return ("res", "Err", lo)
            if short == "binary_search_by":
                clo = e[2][1]
                lo, hi = 0, len(data)
                while lo < hi:
                    mid = (lo + hi) // 2
                    x = data[mid]
                    o = clo_call(clo, ("tuple", list(x)) if isinstance(x, list) else x)
                    if not (isinstance(o, tuple) and o[0] == "enum"):
                        raise Unknown("comparator result %r" % (o,))
                    if o[2] == "Equal":
                        return ("res", "Ok", mid)
                    if o[2] == "Less":
                        lo = mid + 1
                    else:
                        hi = mid
                return ("res", "Err", lo)
            raise Unknown("binary_search")
        if short == "cmp" and len(e[2]) == 2:
            a, b = argv()
            if isinstance(a, int) and isinstance(b, int):
                return ("enum", "Ordering", "Less" if a < b else ("Equal" if a == b else "Greater"))
        if "Result" in name and short in ("map_or", "ok", "is_ok", "is_err", "unwrap_or", "map", "err"):
            v = self.ev(e[2][0], args, depth)
            if isinstance(v, tuple) and v[0] == "res":
                if short == "ok":
                    return ("opt", v[2] if v[1] == "Ok" else None)
                if short == "err":
                    return ("opt", v[2] if v[1] == "Err" else None)
                if short == "is_ok":
                    return int(v[1] == "Ok")
                if short == "is_err":
                    return int(v[1] == "Err")
                if short == "unwrap_or":
                    return v[2] if v[1] == "Ok" else self.ev(e[2][1], args, depth)
                if short == "map_or":
                    if v[1] != "Ok":
                        return self.ev(e[2][1], args, depth)
                    clo = e[2][2]
                    from common import fn_of
                    cb = self.facts.body(self.crate, clo[1]) if clo[0] == "closure" else None
                    if cb is None:
                        raise Unknown("map_or function")
                    env = ("struct", "closure", {k_: self.ev(x_, args, depth) for k_, x_ in (clo[2] or {}).items()})
                    return self.call(fn_of(cb), [env, v[2]], depth + 1)
        if "<impl char>::" in name and short in ("is_lowercase", "is_uppercase", "is_alphanumeric", "is_alphabetic", "is_numeric", "is_whitespace", "is_ascii"):
            c = argv()[0]
            if isinstance(c, int):
                import unicodedata
                ch = chr(c)
                cat = unicodedata.category(ch)
                return int({"is_lowercase": ch.islower() or cat == "Ll", "is_uppercase": ch.isupper() or cat == "Lu",
                            "is_alphanumeric": ch.isalnum(), "is_alphabetic": ch.isalpha(), "is_numeric": ch.isnumeric(),
                            "is_whitespace": ch.isspace(), "is_ascii": c < 128}[short])
        # ---- byte-slice searches and the iterator consumers applied to their results
        if short in ("find", "rfind") and "memmem" in name:
            h, n = argv()
            if isinstance(h, tuple) and h[0] == "bytes" and isinstance(n, tuple) and n[0] in ("bytes", "str"):
                nb = n[1].encode() if n[0] == "str" else n[1]
                i = h[1].find(nb) if short == "find" else h[1].rfind(nb)
                return ("opt", None if i < 0 else i)
            raise Unknown("memmem on unknown data")
        if short in ("memchr", "memrchr") and "memchr" in name:
            b, h = argv()
            if isinstance(h, tuple) and h[0] == "bytes" and isinstance(b, int):
                i = h[1].find(bytes([b])) if short == "memchr" else h[1].rfind(bytes([b]))
                return ("opt", None if i < 0 else i)
            raise Unknown("memchr on unknown data")
        if short == "memchr_iter":
            b, h = argv()
            if isinstance(h, tuple) and h[0] == "bytes" and isinstance(b, int):
                return ("list", [i for i, x in enumerate(h[1]) if x == b])
            raise Unknown("memchr_iter on unknown data")
        if short in ("iter", "into_iter", "copied", "cloned", "by_ref") and len(e[2]) == 1:
            v = argv()[0]
            if isinstance(v, tuple) and v[0] == "bytes":
                return ("list", list(v[1]))
            if isinstance(v, tuple) and v[0] == "list":
                return v
        if short == "enumerate" and len(e[2]) == 1:
            v = argv()[0]
            if isinstance(v, tuple) and v[0] == "list":
                return ("list", [("tuple", [i, x]) for i, x in enumerate(v[1])])
        if short == "windows" and len(e[2]) == 2:
            v, n_ = argv()
            if isinstance(v, tuple) and v[0] == "bytes" and isinstance(n_, int) and n_ > 0:
                return ("list", [("bytes", v[1][i:i + n_]) for i in range(0, max(0, len(v[1]) - n_ + 1))])
        if short in ("any", "all", "position", "find") and len(e[2]) == 2 and isinstance(e[2][1], tuple) and e[2][1][0] == "closure":
            v = self.ev(e[2][0], args, depth)
            if isinstance(v, tuple) and v[0] == "list":
                clo = e[2][1]
                from common import fn_of
                cb = self.facts.body(self.crate, clo[1])
                if cb is None:
                    raise Unknown("closure body %s" % clo[1])
                env = ("struct", "closure", {k_: self.ev(x, args, depth) for k_, x in (clo[2] or {}).items()})
                outs = []
                for i, x in enumerate(v[1]):
                    r = self.call(fn_of(cb), [env, x], depth + 1)
                    outs.append(r)
                    if short == "any" and r:
                        return 1
                    if short == "all" and not r:
                        return 0
                    if short in ("position", "find") and r:
                        return ("opt", i if short == "position" else x)
                return {"any": 0, "all": 1}.get(short, ("opt", None))
        if short == "get" and "[T]" in name and len(e[2]) == 2:
            v, i = argv()
            if isinstance(v, tuple) and v[0] == "bytes" and isinstance(i, int):
                return ("opt", v[1][i] if 0 <= i < len(v[1]) else None)
        if short in ("map_or", "map", "is_some_and", "and_then", "unwrap_or", "map_or_else", "filter") and "Option" in name:
            v = self.ev(e[2][0], args, depth)
            if isinstance(v, tuple) and v[0] == "opt":
                def apply(clo, x):
                    from common import fn_of
                    if not (isinstance(clo, tuple) and clo[0] == "closure"):
                        raise Unknown("non-closure function value")
                    cb = self.facts.body(self.crate, clo[1])
                    if cb is None:
                        raise Unknown("closure body %s" % clo[1])
                    env = ("struct", "closure", {k_: self.ev(x_, args, depth) for k_, x_ in (clo[2] or {}).items()})
                    return self.call(fn_of(cb), [env, x], depth + 1)
                if short == "map_or":
                    return self.ev(e[2][1], args, depth) if v[1] is None else apply(e[2][2], v[1])
                if short == "map":
                    return ("opt", None) if v[1] is None else ("opt", apply(e[2][1], v[1]))
                if short == "is_some_and":
                    return 0 if v[1] is None else apply(e[2][1], v[1])
                if short == "and_then":
                    return ("opt", None) if v[1] is None else apply(e[2][1], v[1])
                if short == "filter":
                    return v if v[1] is not None and apply(e[2][1], v[1]) else ("opt", None)
                if short == "unwrap_or":
                    return self.ev(e[2][1], args, depth) if v[1] is None else v[1]
        if short in ("is_none", "is_some") and "Option" in name:
            v = argv()[0]
            if isinstance(v, tuple) and v[0] == "opt":
                return int((v[1] is None) == (short == "is_none"))
        if short in ("first", "last") and "[T]" in name:
            v = argv()[0]
            if isinstance(v, tuple) and v[0] == "bytes":
                return ("opt", (v[1][0] if short == "first" else v[1][-1]) if v[1] else None)
        if short == "contains" and "<impl str>" not in name and len(e[2]) == 2:
            pass
        if short in ("eq", "ne") and ("PartialEq" in name or "PartialEq" in fnname):
            a, b = argv()
            return int((a == b) == (short == "eq"))
        if short in ("from", "into") and len(e[2]) == 1:
            return argv()[0]
        if short == "contains" and "[T]" in name:
            s, x = argv()
            if isinstance(s, tuple) and s[0] == "bytes":
                return int(x in s[1])
            raise Unknown("contains on an unknown slice")
        if short in ("max", "min") and ("Ord" in name or "cmp::" in name):
            a, b = argv()
            return max(a, b) if short == "max" else min(a, b)
        if short == "clone":
            return argv()[0]
        body = self.facts.body(self.crate, name)
        if body is not None and depth < self.max_depth:
            from common import fn_of
            return self.call(fn_of(body), argv(), depth + 1)
        raise Unknown("call of %s" % name)

    def _str_model(self, short, name, e, args, depth):
        vals = [self.ev(a, args, depth) for a in e[2]]
        s0 = vals[0]
        if not (isinstance(s0, tuple) and s0[0] == "str"):
            return NotImplemented
        txt = s0[1]

        def pat(v):
            if isinstance(v, int):
                return chr(v)
            if isinstance(v, tuple) and v[0] == "array" and v[1] and all(isinstance(x, int) for x in v[1]):
                return tuple(chr(x) for x in v[1])       # [char; N] pattern: any of the characters
            if isinstance(v, tuple) and v[0] == "str":
                return v[1]
            raise Unknown("string pattern %r" % (v,))
        if short == "as_bytes":
            return ("bytes", txt.encode())
        if short == "len":
            return len(txt.encode())
        if short == "is_empty":
            return int(not txt)
        if short == "is_ascii":
            return int(all(ord(c) < 128 for c in txt))
        if short in ("strip_prefix", "strip_suffix") and isinstance(pat(vals[1]), tuple):
            alts = pat(vals[1])
            hit = txt and (txt[0] if short == "strip_prefix" else txt[-1]) in alts
            return ("opt", ("str", txt[1:] if short == "strip_prefix" else txt[:-1])) if hit else ("opt", None)
        if short == "strip_prefix":
            p_ = pat(vals[1])
            return ("opt", ("str", txt[len(p_):])) if txt.startswith(p_) else ("opt", None)
        if short == "strip_suffix":
            p_ = pat(vals[1])
            return ("opt", ("str", txt[:len(txt) - len(p_)])) if p_ and txt.endswith(p_) else ("opt", None)
        if short == "starts_with":
            return int(txt.startswith(pat(vals[1])))
        if short == "ends_with":
            return int(txt.endswith(pat(vals[1])))
        if short == "index":
            r = vals[1]
            if isinstance(r, tuple) and r[0] == "struct":
                lo = r[2].get("start", 0)
                hi = r[2].get("end", len(txt))
                if not (0 <= lo <= hi <= len(txt)):
                    raise Unknown("string index out of bounds (would panic)")
                return ("str", txt[lo:hi])
        return NotImplemented

    def call(self, fn, argvals, depth=0):
        """Evaluate a crate-local loop-free function on concrete/abstract argument values."""
        args = {i + 1: v for i, v in enumerate(argvals)}
        hits = []
        for conds, res in self.paths(fn):
            ok = True
            for d, chosen, allv in conds:
                v = self.ev(d, args, depth)
                if isinstance(v, tuple):
                    raise Unknown("branch on a non-integer in %s" % fn.path)
                if (chosen is not None and v != chosen) or (chosen is None and v in allv):
                    ok = False
                    break
            if ok:
                hits.append(res)
        if len(hits) != 1 or hits[0] is None:
            raise Unknown("%d decision paths of %s match" % (len(hits), fn.path))
        return self.ev(hits[0], args, depth)

"""C13 — no lost wake-up (pairing discipline of the notification protocol)."""
from cfg import strip_casts, Inconclusive, op_place, show, walk
from common import (atomic_op, calls_to, callee, closure_creations, closure_consumer, field_chain, fn_of,
                    find_fn, get_fn, head_sources, peel, site, guards_of, field_assigns, is_diverging)
from common import bool_param, is_arg, GuardStates
from props.c09 import classify

PROP = "C13"
LEVEL = "other"
UNDECIDED = [
    "liveness over all schedules in general (needs exploration of interleavings)",
    "that the UI callback itself ticks when notified (outside the library)",
]
ASSUMPTIONS = [
    "parking_lot's ArcMutexGuard holds the worker mutex from lock_arc/try_lock_arc_for until it is dropped",
    "the closure handed to ThreadPool::spawn owns the guard for the whole run (checked in C09.guard-moved)",
]

TICK_INNER = "Nucleo::<T>::tick_inner"
RUN = "worker::Worker::<T>::run"
FN_CALLS = ("std::ops::Fn::call", "std::ops::FnOnce::call_once", "std::ops::FnMut::call_mut")


def notify_calls(fn):
    out = []
    for bi, t in fn.calls(lambda t: callee(t) in FN_CALLS or (t.get("fn") in FN_CALLS)):
        e = fn.expr_of_operand(t["args"][0])
        base, names = field_chain(e)
        if names and names[-1] == "notify":
            out.append(bi)
    return out


def flag_ops(fn, cls, op):
    out = []
    for bi, t in fn.calls(lambda t: atomic_op(t) == op):
        if classify(fn, fn.expr_of_operand(t["args"][0])) == cls:
            out.append((bi, t))
    return out


def rule_injector_notify(ctx):
    for name, target in (("Injector::<T>::push", "boxcar::Vec::<T>::push"), ("Injector::<T>::extend", "boxcar::Vec::<T>::extend")):
        fn = get_fn(ctx.facts, "nucleo", name)
        ins = [bi for bi, t in fn.calls(lambda t: callee(t) == target)]
        nts = notify_calls(fn)
        key = "%s|notify|1" % name
        if not ins:
            raise Inconclusive("%s does not call %s" % (name, target))
        if not nts:
            ctx.violation(key, site(fn, ins[0]), "%s inserts without calling the notify callback" % name)
            continue
        ok = True
        for i in ins:
            tgt = fn.blocks[i]["term"]["target"]
            if not fn.all_paths_to_return_pass(tgt, via_nodes=nts):
                ok = False
                ctx.violation(key, site(fn, i), "a path returns from %s after the insertion without calling notify" % name)
            if not all(fn.dominates(i, n) for n in nts):
                ok = False
                ctx.violation(key + "|order", site(fn, i), "notify can run before the items are inserted (the woken tick would not see them)")
        if ok:
            ctx.ok(site(fn, ins[0]), "notify post-dominates the insertion and comes after it")


def rule_run_exit(ctx):
    fn = get_fn(ctx.facts, "nucleo", RUN)
    nts = notify_calls(fn)
    loads = flag_ops(fn, "should_notify", "load")
    cancel_blocks = []
    for bi, si, s in field_assigns(fn, "was_canceled"):
        if si != "term" and "use" in s["rv"] and fn.const_of_operand(s["rv"]["use"]) == 1:
            cancel_blocks.append(bi)
    good_loads = []
    for bi, t in loads:
        sw = fn.blocks[t["target"]]["term"]
        okl = False
        if sw["k"] == "switch":
            e = fn.expr_of_operand(sw["discr"])
            d = t["dest"]
            if e[0] == "call" and e[4] == (bi, d["l"]):
                true_t = sw["otherwise"]
                if fn.all_paths_to_return_pass(true_t, via_nodes=nts) and nts:
                    okl = True
        if okl:
            good_loads.append(bi)
            ctx.ok(site(fn, bi), "should_notify read; its true edge calls notify before returning")
        else:
            ctx.violation(RUN + "|should_notify.load|%d" % (len(good_loads) + 1), site(fn, bi),
                          "flag read whose true edge does not lead to the notify callback")
    ctx.floor("should_notify reads in Worker::run", len(loads), 1)
    via = good_loads + cancel_blocks
    # `self.was_canceled = canceled; if canceled { return }`: the flag is set from the sort's result and the run
    # leaves on the result's true edge — that exit is a cancelled (and marked) one
    cancel_edges = []
    for bi, si, s in field_assigns(fn, "was_canceled"):
        if si == "term":
            continue
        def unnot(e_):
            e_ = strip_casts(e_)
            par_ = 0
            while e_[0] == "un" and e_[1] == "Not":
                e_ = strip_casts(e_[2]); par_ += 1
            return e_, par_ % 2
        v, vp = unnot(fn.expr_of_rvalue(s["rv"]))
        if v[0] == "call" and str(v[1]).endswith("par_quicksort") and vp == 0:
            for gbi in sorted(fn.live):
                t = fn.blocks[gbi]["term"]
                if t["k"] != "switch":
                    continue
                d_, dp = unnot(fn.expr_of_operand(t["discr"]))
                if d_ == v and (fn.dominates(bi, gbi) or gbi in fn.reach_from(bi)):
                    # the edge on which the sort's result is `true` (cancelled)
                    if dp == 0:
                        cancel_edges.append((gbi, t["otherwise"]))
                    else:
                        cancel_edges += [(gbi, bb) for val_, bb in t["arms"] if val_ == 0]
    if fn.all_paths_to_return_pass(0, via_nodes=via, via_edges=cancel_edges):
        ctx.ok(site(fn, 0), "every normal exit of the run is cancelled (was_canceled = true) or passes a flag check that notifies")
    else:
        # find an offending return path for the report
        r = fn.reach_from(0, removed_nodes=via, removed_edges=cancel_edges)
        ret = [x for x in fn.returns if x in r]
        ctx.violation(RUN + "|exit-without-check|1", site(fn, ret[0] if ret else 0),
                      "a completed (non-cancelled) run can return without looking at should_notify: a UI that was told `running` and waits for the notification is never woken")


def guard_states(fn):
    gs = getattr(fn, "_guard_states", None)
    if gs is None:
        gs = GuardStates(fn)
        fn._guard_states = gs
    return gs


def failed_lock_edges(fn):
    return list(guard_states(fn).failed_edges)


def rule_arm_under_lock(ctx):
    facts = ctx.facts
    arming = []
    for b in facts.bodies_of("nucleo"):
        fn = fn_of(b)
        for bi, t in flag_ops(fn, "should_notify", "store"):
            if fn.const_of_operand(t["args"][1]) == 1:
                arming.append((fn, bi, t))
            elif fn.const_of_operand(t["args"][1]) is None:
                ctx.fail_closed("should_notify stored with a non-constant value at %s" % site(fn, bi))
    ctx.floor("arming stores of should_notify", len(arming), 1)
    n_unguarded = 0
    for fn, bi, t in arming:
        if fn.path != TICK_INNER:
            n_unguarded += 1
            ctx.violation("%s|should_notify.store|outside-tick|%d" % (fn.path, n_unguarded), site(fn, bi),
                          "notification flag armed outside tick_inner, i.e. without holding the worker mutex")
            continue
        gs = guard_states(fn)
        if not gs.acquired_edges:
            raise Inconclusive("no lock_arc / try_lock_arc_for of the worker mutex found in %s" % fn.path)
        if gs.held(bi):
            ctx.ok(site(fn, bi), "flag armed while the worker mutex is held (before the guard moves into the run)")
            continue
        failed = failed_lock_edges(fn)
        if failed and fn.must_pass(bi, via_edges=failed):
            ctx.violation("%s|should_notify.store|failed-try-lock" % fn.path, site(fn, bi),
                          "flag armed after the try-lock timed out, without the mutex: the worker reads the flag once, while still holding the lock; "
                          "if it read `false` just before this store the finished run never notifies (lost wake-up)")
        else:
            n_unguarded += 1
            ctx.violation("%s|should_notify.store|unguarded|%d" % (fn.path, n_unguarded), site(fn, bi),
                          "flag armed on a path that does not hold the worker mutex (or after the guard was handed to the run)")


def rule_disarm_first(ctx):
    tick = get_fn(ctx.facts, "nucleo", "Nucleo::<T>::tick")
    dis = [bi for bi, t in flag_ops(tick, "should_notify", "store") if tick.const_of_operand(t["args"][1]) == 0]
    inner_calls = [(bi, t) for bi, t in tick.calls(lambda t: callee(t) == TICK_INNER)]
    ctx.floor("tick_inner calls in tick", len(inner_calls), 2)
    if dis and all(tick.dominates(dis[0], bi) for bi, _ in inner_calls):
        ctx.note("tick disarms the flag before any lock attempt")
    else:
        # extra notifications are harmless for this property: not a violation
        ctx.note("tick does not disarm should_notify first (only causes spurious notifications)")
    # second phase runs with canceled == false whenever the first ran with canceled == true
    first = inner_calls[0]
    second = [c for c in inner_calls[1:] if tick.const_of_operand(c[1]["args"][2]) == 0]
    canc = tick.expr_of_operand(first[1]["args"][2])
    if not second:
        ctx.violation("Nucleo::<T>::tick|second-phase|1", site(tick, first[0]), "no second tick_inner(.., canceled = false, ..) phase")
    else:
        # every path from the first call to Return either is on the `canceled == false` edge or passes the second call
        nocancel_edges = []
        for gbi in sorted(tick.live):
            t = tick.blocks[gbi]["term"]
            if t["k"] == "switch" and tick.expr_of_operand(t["discr"]) == canc:
                for v, bb in t["arms"]:
                    if v == 0:
                        nocancel_edges.append((gbi, bb))
        if tick.all_paths_to_return_pass(first[1]["target"], via_nodes=[second[0][0]], via_edges=nocancel_edges) and nocancel_edges:
            ctx.ok(site(tick, second[0][0]), "a cancelling tick always runs the second, arming phase")
        else:
            ctx.violation("Nucleo::<T>::tick|second-phase|2", site(tick, first[0]), "a cancelling first phase can return without the second (arming) phase")
    # in tick_inner: the spawn is reached only after arming, or with canceled == true (first phase)
    ti = get_fn(ctx.facts, "nucleo", TICK_INNER)
    spawns = [sbi for sbi, st in ti.calls(lambda t: callee(t) == "rayon::ThreadPool::spawn")]
    arm = [bi for bi, t in flag_ops(ti, "should_notify", "store") if ti.const_of_operand(t["args"][1]) == 1]
    cedges = []
    for gbi in sorted(ti.live):
        t = ti.blocks[gbi]["term"]
        if t["k"] == "switch":
            e = ti.expr_of_operand(t["discr"])
            if is_arg(e, bool_param(ti)):
                cedges.append((gbi, t["otherwise"]))
    # the arming decision must be taken after the `running` decision: look only at the region from the spawn guard
    for s in spawns:
        # paths entry -> spawn that avoid every arming store must go through a canceled==true edge that is
        # *after* the lock (the switch right before the store)
        late = [e for e in cedges if guard_states(ti).held(e[0])]
        if ti.must_pass(s, via_nodes=arm, via_edges=late) and arm:
            ctx.ok(site(ti, s), "run spawned only after arming the flag, except in the cancelling first phase")
        else:
            ctx.violation(TICK_INNER + "|spawn-unarmed|1", site(ti, s), "a non-cancelling tick can spawn the run (and report `running`) without arming the notification flag")
    # the failed-lock exit arms too
    for e in failed_lock_edges(ti):
        if ti.all_paths_to_return_pass(e[1], via_nodes=arm):
            ctx.ok(site(ti, e[1]), "timed-out lock attempt arms the flag before reporting `running`")
        else:
            ctx.violation(TICK_INNER + "|timeout-unarmed|1", site(ti, e[1]), "timed-out lock attempt reports `running` without arming the flag")


def rule_notify_identity(ctx):
    """What the worker and the injectors call IS the user's callback: in Nucleo::new the value handed to Worker::new
    and stored in Nucleo.notify is the `notify` parameter (or a clone).  A wrapper is acceptable only if it calls the
    wrapped callback on every path; a wrapper that drops calls (coalescing, rate limiting, `if !pending`) turns a
    wake-up that the protocol guarantees into one that may never reach the user."""
    from cfg import strip_casts
    facts = ctx.facts
    fn = get_fn(facts, "nucleo", "Nucleo::<T>::new")
    nl = [l for l in range(1, fn.arg_count + 1) if fn.names.get(l) == "notify"]
    if not nl:
        raise Inconclusive("Nucleo::new has no `notify` parameter")
    sinks = []
    for bi, t in fn.calls(lambda t: callee(t) == "worker::Worker::<T>::new"):
        for a in t["args"]:
            e = fn.expr_of_operand(a)
            if "Fn()" in str(fn.b["locals"][(a.get("move") or a.get("copy") or {"l": 0})["l"]]["ty"]) if (a.get("move") or a.get("copy")) else False:
                sinks.append(("Worker::new", bi, e))
    for bi, si, s_ in fn.stmts(lambda s_: s_["k"] == "assign" and s_["rv"].get("agg") == "adt" and str(s_["rv"].get("adt", "")).endswith("Nucleo")):
        names = s_["rv"]["fields"]
        if "notify" in names:
            sinks.append(("Nucleo.notify", bi, fn.expr_of_operand(s_["rv"]["ops"][names.index("notify")])))
    ctx.floor("places where Nucleo::new hands out the notify callback", len(sinks), 2)

    def resolve(e, depth=0):
        e = strip_casts(e)
        while e[0] in ("ref", "deref", "cast"):
            e = strip_casts(e[2] if e[0] == "cast" else e[1])
        if e[0] == "call" and str(e[1]).endswith("Clone>::clone") and depth < 6:
            return resolve(e[2][0], depth + 1)
        return e
    for what, bi, e in sinks:
        r = resolve(e)
        key = "Nucleo::<T>::new|notify-identity|%s" % what
        if r[0] == "arg" and r[1] == nl[0]:
            ctx.ok(site(fn, bi), "%s receives the user's notify callback itself" % what)
            continue
        clo = [x for x in walk(r) if x[0] == "closure"]
        if r[0] == "call" and str(r[1]).endswith("Arc::<T>::new") and clo:
            cf = get_fn(facts, "nucleo", clo[0][1])
            inner = [cb for cb, ct in cf.calls(lambda t: callee(t) in FN_CALLS or (t.get("fn") in FN_CALLS))
                     if any(x[0] == "field" and x[2] == "notify" for x in walk(cf.expr_of_operand(ct["args"][0])))]
            if inner and cf.all_paths_to_return_pass(0, via_nodes=inner):
                ctx.ok(site(fn, bi), "%s receives a wrapper that calls the user's callback on every path" % what)
            else:
                ctx.violation(key, site(cf, inner[0] if inner else 0),
                              "%s receives a wrapper (%s) that does not call the user's callback on every path: a notification the worker or an injector issues can be "
                              "swallowed, and if the condition that re-enables it is not re-established (a tick that timed out on the lock) no later one gets through either" % (what, cf.path))
            continue
        raise Inconclusive("Nucleo::new: cannot resolve what %s receives as notify (%s)" % (what, show(r)[:80]))


def rule_cancel_writers(ctx):
    """A run that a tick reported as `running` ends in exactly two ways: it completes (and reads should_notify), or it
    is cancelled -- and then leaves WITHOUT notifying, which is only sound because whoever raises `canceled` takes the
    run over: the cancelling phase of tick_inner blocks on the worker lock and starts the next run itself; restart is
    followed by such a tick (state Cleared); Drop ends everything.  Any other function that stores `true` into
    `canceled` aborts a promised run with nobody left to notify (and nobody to publish its results: C19)."""
    facts = ctx.facts
    allowed = {"Nucleo::<T>::tick_inner": "cancelling phase of tick (blocks, then spawns the next run)",
               "Nucleo::<T>::restart": "followed by a cancelling tick (State::Cleared / Init)",
               "<Nucleo<T> as std::ops::Drop>::drop": "the matcher is going away"}
    n = 0
    for b in facts.bodies_of("nucleo"):
        fn = fn_of(b)
        for bi, t in fn.calls(lambda t: atomic_op(t) in ("store", "swap", "fetch_or", "compare_exchange")):
            if classify(fn, fn.expr_of_operand(t["args"][0])) != "canceled":
                continue
            v = fn.const_of_operand(t["args"][1]) if len(t["args"]) > 1 else None
            if v in (0, False):
                continue          # clearing the flag (done under the worker lock: C12.stream-switch)
            n += 1
            root = fn.b.get("root", fn.path) if fn.b.get("kind") == "Closure" else fn.path
            if root in allowed:
                ctx.ok(site(fn, bi), "`canceled` raised by %s: %s" % (root.split("::")[-1], allowed[root]))
            else:
                ctx.violation("%s|canceled.store|writer" % root, site(fn, bi),
                              "`canceled` is raised by %s, which is neither the cancelling phase of a tick nor restart nor Drop: the run a previous tick reported as running "
                              "leaves through its was_canceled exit without notifying, and no tick is committed to start the next run or to publish a result" % root)
    ctx.floor("places that raise `canceled`", n, 3)


def rules(ctx):
    ctx.run_rule("C13.notify-identity", rule_notify_identity)
    ctx.run_rule("C13.cancel-writers", rule_cancel_writers)
    ctx.run_rule("C13.injector-notify", rule_injector_notify)
    ctx.run_rule("C13.run-exit", rule_run_exit)
    ctx.run_rule("C13.arm-under-lock", rule_arm_under_lock)
    ctx.run_rule("C13.disarm-first", rule_disarm_first)

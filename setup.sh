#!/bin/bash
# Builds the fact extractor (offline). Run once after a fresh restore.
set -euo pipefail
cd "$(dirname "$0")"
export CARGO_NET_OFFLINE=true
(cd driver && cargo +nightly build --release --offline -q)
test -x driver/target/release/nfacts
mkdir -p .cache evidence /root/scratch
echo "setup ok"

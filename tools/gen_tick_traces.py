#!/usr/bin/env python3
"""Writes ref/tick_traces.py.txt: the canonical path traces of the flattened Nucleo::tick of /repo (run on the pinned,
repaired tree only; the file is the reference the re-architected-tick fallback compares against)."""
import os, sys
VERIF = os.path.dirname(os.path.dirname(os.path.abspath(__file__)))
sys.path.insert(0, os.path.join(VERIF, "rules")); sys.path.insert(0, os.path.join(VERIF, "rules", "props"))
import engine
from facts import Facts
import ticktrace
facts = Facts(engine.extract_facts(os.environ.get("NUCLEO_REPO", "/repo"))[0])
print("reference paths:", ticktrace.save_reference(facts))

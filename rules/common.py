"""Helpers shared by the property modules."""
from cfg import Fn, Inconclusive, op_place, place_key, show, strip_casts, walk

_FN_CACHE = {}


def fn_of(body):
    k = (body["crate"], body["path"])
    f = _FN_CACHE.get(k)
    if f is None or f.b is not body:
        f = Fn(body)
        _FN_CACHE[k] = f
    return f


def get_fn(facts, crate, path):
    b = facts.body(crate, path)
    if b is None:
        raise Inconclusive("anchor body not found: %s::%s" % (crate, path))
    return fn_of(b)


def spawner_fn(facts):
    """The body of Nucleo that hands the run closure to the thread pool: tick_inner, or -- when tick has been
    re-architected -- the one method of Nucleo that calls ThreadPool::spawn."""
    b = facts.body("nucleo", "Nucleo::<T>::tick_inner")
    def spawns(b_):
        return any(blk["term"]["k"] == "call" and str(blk["term"].get("resolved") or blk["term"].get("fn")) == "rayon::ThreadPool::spawn" for blk in b_["blocks"])
    if b is not None and spawns(b):
        return fn_of(b)
    m = [b_ for b_ in facts.bodies_of("nucleo") if b_["path"].startswith("Nucleo::<T>::") and b_.get("kind") != "Closure" and spawns(b_)]
    if len(m) != 1:
        raise Inconclusive("the method of Nucleo that spawns the worker run: %d candidates" % len(m))
    return fn_of(m[0])


def alternatives(fn, e, depth=0):
    """What `e` can stand for when it projects fields out of a local with several definitions that are aggregates
    (a result carried in a private enum / struct / tuple: `match outcome { Window { start, end } => ..}` with `outcome`
    assigned on two paths): the projection applied to each definition it applies to.  [e] when e is not such a
    projection."""
    return [x for _, x in alternatives_tagged(fn, e, depth)]


def alternatives_tagged(fn, e, depth=0, tag=()):
    """Like alternatives, each result with the choices made: ((local, definition site), ..).  Two expressions resolved
    from the same carrier belong together when their tags agree on every local both mention."""
    from cfg import strip_casts
    e0 = e
    chain = []
    x = strip_casts(e)
    while isinstance(x, tuple) and x and x[0] in ("field", "downcast", "ref", "deref"):
        if x[0] == "field":
            chain.append(("f", x[2], x[3] if len(x) > 3 else None))
        elif x[0] == "downcast":
            chain.append(("d", str(x[2])))
        x = strip_casts(x[1])
    if depth > 5 or not chain or not (isinstance(x, tuple) and x and x[0] == "local"):
        return [(tag, e0)]
    chain.reverse()

    def whole(d, tg, dd=0):
        d = strip_casts(d)
        if d[0] == "local" and dd < 5:
            r = []
            for bi_, si_, y in fn.def_exprs(d[1]):
                r += whole(y, tg + ((d[1], (bi_, si_)),), dd + 1)
            return r
        return [(tg, d)]
    results = []
    for tg, d in whole(x, tag):
        cur = [d]
        for step in chain:
            nxt = []
            for c in cur:
                c = strip_casts(c)
                while isinstance(c, tuple) and c and c[0] in ("ref", "deref"):
                    c = strip_casts(c[1])
                if step[0] == "d":
                    if c[0] == "agg":
                        if str(c[1]).endswith("::" + step[1]):
                            nxt.append(c)
                    else:
                        nxt.append(("downcast", c, step[1]))
                else:
                    name = step[1]
                    if c[0] == "agg" and name in c[2]:
                        nxt.append(c[2][name])
                    elif c[0] == "tuple" and name.isdigit() and int(name) < len(c[1]):
                        nxt.append(c[1][int(name)])
                    else:
                        nxt.append(("field", c, name, step[2]))
            cur = nxt
        results += [(tg, c) for c in cur]
    out = []
    for tg, r in results:
        if r == e0 or r == strip_casts(e0):
            out.append((tg, r))
        else:
            out += alternatives_tagged(fn, r, depth + 1, tg)
    return out or [(tag, e0)]


def map_expr(e, f):
    """Rebuild an expression tree top-down: f(node) -> replacement or None (descend)."""
    if not isinstance(e, tuple) or not e:
        return e
    r = f(e)
    if r is not None:
        return r
    out = []
    for x in e:
        if isinstance(x, tuple):
            if x and isinstance(x[0], str):
                out.append(map_expr(x, f))
            else:
                out.append(tuple(map_expr(y, f) if isinstance(y, tuple) else y for y in x))
        elif isinstance(x, dict):
            out.append({k: map_expr(v, f) for k, v in x.items()})
        else:
            out.append(x)
    return tuple(out)


def resolve_under(fn, e, tag):
    """e with every projection out of a multi-definition carrier replaced by the projection of the definition chosen in
    `tag`, and Option helpers on a known variant folded (`Some(x).unwrap_or(d)` = x, `None.unwrap_or(d)` = d)."""
    from cfg import strip_casts

    def f(node):
        if node[0] in ("field", "downcast"):
            alts = [x for t_, x in alternatives_tagged(fn, node) if tags_agree(t_, tag) and tags_agree(tag, t_)]
            if len(alts) == 1 and alts[0] != node and alts[0] != strip_casts(node):
                return resolve_under(fn, alts[0], tag)
        if node[0] == "call" and str(node[1]).endswith("::unwrap_or") and len(node[2]) == 2:
            a0 = resolve_under(fn, node[2][0], tag)
            a0s = strip_casts(a0)
            if a0s[0] == "agg" and str(a0s[1]).endswith("Option::Some"):
                return a0s[2].get("0")
            if a0s[0] == "agg" and str(a0s[1]).endswith("Option::None"):
                return resolve_under(fn, node[2][1], tag)
        return None
    return map_expr(e, f)


def tags_agree(t1, t2):
    d1 = dict(t1)
    return all(d1.get(l, s_) == s_ for l, s_ in t2)


def find_fn(facts, crate, suffix):
    """Unique body whose path ends with `suffix` (e.g. '::tick_inner')."""
    m = [b for b in facts.bodies_of(crate) if b["path"].endswith(suffix)]
    if len(m) != 1:
        raise Inconclusive("anchor body %r: %d candidates in %s" % (suffix, len(m), crate))
    return fn_of(m[0])


def callee(t):
    return t.get("resolved") or t.get("fn") or ""


def callee_names(t):
    s = set()
    if t.get("resolved"):
        s.add(t["resolved"])
    if t.get("fn"):
        s.add(t["fn"])
    return s


def calls_to(facts, crate, pred, live_only=True):
    """All call sites in `crate` whose callee satisfies pred(term) -> [(Fn, bb, term)]."""
    out = []
    for b in facts.bodies_of(crate):
        f = fn_of(b)
        it = f.calls(pred) if live_only else f.all_calls(pred)
        for bi, t in it:
            out.append((f, bi, t))
    return out


def is_call_to(t, *names):
    cs = callee_names(t)
    return any(n in cs for n in names)


def call_matches(t, substr):
    return any(substr in c for c in callee_names(t))


def site(fn, bi, si=None):
    return "%s (%s)" % (fn.loc(bi, si), fn.path)


DEREF_FNS = ("std::ops::Deref::deref", "std::ops::DerefMut::deref_mut")


def peel(e):
    """Strip references, dereferences, casts and Deref/DerefMut calls (smart-pointer hops)."""
    while True:
        if not isinstance(e, tuple):
            return e
        k = e[0]
        if k in ("ref", "deref"):
            e = e[1]
        elif k == "cast":
            e = e[2]
        elif k == "call" and (e[3] in DEREF_FNS or (isinstance(e[1], str) and (e[1].endswith("as std::ops::Deref>::deref") or e[1].endswith("as std::ops::DerefMut>::deref_mut")))):
            e = e[2][0]
        else:
            return e


def field_chain(e):
    """For x.a.b (through refs/derefs/Deref hops) return (base, ['a','b'])."""
    names = []
    e = peel(e)
    while isinstance(e, tuple) and e[0] == "field":
        names.append(e[2])
        e = peel(e[1])
    names.reverse()
    return e, names


def ordering_of(fn, operand):
    e = fn.expr_of_operand(operand)
    if e[0] == "agg" and e[1].startswith("std::sync::atomic::Ordering::"):
        return e[1].rsplit("::", 1)[1]
    if e[0] == "const" and isinstance(e[1], str):
        return e[1]
    return None


STRENGTH_STORE = {"Relaxed": 0, "Release": 1, "AcqRel": 1, "SeqCst": 1, "Acquire": 0}
STRENGTH_LOAD = {"Relaxed": 0, "Acquire": 1, "AcqRel": 1, "SeqCst": 1, "Release": 0}

ATOMIC_OPS = ("load", "store", "swap", "fetch_add", "fetch_sub", "fetch_and", "fetch_or", "fetch_xor",
              "fetch_nand", "fetch_max", "fetch_min", "fetch_update", "compare_exchange",
              "compare_exchange_weak", "compare_and_swap")


def atomic_op(t):
    """If the call terminator is an atomic memory operation return its method name."""
    f = t.get("fn") or ""
    if not f.startswith("std::sync::atomic::Atomic"):
        return None
    m = f.rsplit("::", 1)[1]
    return m if m in ATOMIC_OPS else None


def local_sources(fn, start_locals):
    """Flow-insensitive backward data dependence: every local, constant and callee that can flow into the given locals
    (through assignments to any part of a local, call results and `&mut` hand-offs).  Returns (locals, consts, callees)."""
    import json as _json

    def locals_in(obj, acc):
        if isinstance(obj, dict):
            if "l" in obj and "p" in obj and isinstance(obj["l"], int):
                acc.add(obj["l"])
                for e in obj["p"]:
                    if isinstance(e, dict) and isinstance(e.get("index"), int):
                        acc.add(e["index"])
            for k_, v in obj.items():
                if k_ != "lhs":
                    locals_in(v, acc)
        elif isinstance(obj, list):
            for v in obj:
                locals_in(v, acc)

    def consts_in(obj, acc):
        if isinstance(obj, dict):
            if "const" in obj and isinstance(obj["const"], dict):
                acc.add(str(obj["const"].get("def") or obj["const"].get("text")))
            for v in obj.values():
                consts_in(v, acc)
        elif isinstance(obj, list):
            for v in obj:
                consts_in(v, acc)
    deps = {}
    kons = {}
    calls = {}
    for bi in sorted(fn.live):
        blk = fn.blocks[bi]
        for s_ in blk["stmts"]:
            if s_.get("k") != "assign":
                continue
            l = s_["lhs"]["l"]
            acc = set()
            locals_in(s_["rv"], acc)
            for e in s_["lhs"]["p"]:
                if isinstance(e, dict) and isinstance(e.get("index"), int):
                    acc.add(e["index"])
            deps.setdefault(l, set()).update(acc)
            ck = set()
            consts_in(s_["rv"], ck)
            kons.setdefault(l, set()).update(ck)
            # a store through a reference also reaches what the reference points to
            if s_["lhs"]["p"] and s_["lhs"]["p"][0] == "deref":
                for l2, d2 in list(deps.items()):
                    pass
        t = blk["term"]
        if t["k"] == "call":
            l = t["dest"]["l"]
            acc = set()
            locals_in(t["args"], acc)
            deps.setdefault(l, set()).update(acc)
            ck = set()
            consts_in(t["args"], ck)
            kons.setdefault(l, set()).update(ck)
            calls.setdefault(l, set()).add(callee(t))
    # `r = &mut x; *r = v` : x depends on v
    ref_of = {}
    for bi in sorted(fn.live):
        for s_ in fn.blocks[bi]["stmts"]:
            if s_.get("k") == "assign" and "ref" in s_["rv"] and not s_["lhs"]["p"]:
                ref_of.setdefault(s_["lhs"]["l"], set()).add(s_["rv"]["ref"]["l"])
    for r_, tg in ref_of.items():
        for x in tg:
            deps.setdefault(x, set()).update(deps.get(r_, set()) - {x})
            kons.setdefault(x, set()).update(kons.get(r_, set()))
            calls.setdefault(x, set()).update(calls.get(r_, set()))
    seen = set()
    work = list(start_locals)
    K, C = set(), set()
    while work:
        l = work.pop()
        if l in seen:
            continue
        seen.add(l)
        K |= kons.get(l, set())
        C |= calls.get(l, set())
        work += list(deps.get(l, ()))
    return seen, K, C


def uses_of_local(fn, l):
    """All reads of local `l`: ('stmt', bb, si, stmt) / ('term', bb, term, role)."""
    out = []

    def op_uses(o):
        p = op_place(o)
        if p is None:
            return False
        if p["l"] == l:
            return True
        return any(isinstance(e, dict) and e.get("index") == l for e in p["p"])

    def place_uses(p):
        return p["l"] == l or any(isinstance(e, dict) and e.get("index") == l for e in p["p"])

    for bi in sorted(fn.live):
        blk = fn.blocks[bi]
        for si, s in enumerate(blk["stmts"]):
            if s["k"] != "assign":
                continue
            rv = s["rv"]
            used = False
            for key in ("use", "cast", "a", "b", "repeat"):
                if key in rv and isinstance(rv[key], dict) and op_uses(rv[key]):
                    used = True
            for key in ("ref", "rawptr", "discr"):
                if key in rv and place_uses(rv[key]):
                    used = True
            if "ops" in rv and any(op_uses(o) for o in rv["ops"]):
                used = True
            if s["lhs"]["p"] and place_uses(s["lhs"]):
                # projection on lhs reads the base (e.g. (*_x).f = ..)
                used = True
            if used:
                out.append(("stmt", bi, si, s))
        t = blk["term"]
        if t["k"] == "switch" and op_uses(t["discr"]):
            out.append(("term", bi, t, "switch"))
        elif t["k"] == "call":
            for i, a in enumerate(t["args"]):
                if op_uses(a):
                    out.append(("term", bi, t, "arg%d" % i))
            if "fn_operand" in t and op_uses(t["fn_operand"]):
                out.append(("term", bi, t, "callee"))
        elif t["k"] == "assert" and op_uses(t["cond"]):
            out.append(("term", bi, t, "assert"))
        elif t["k"] == "drop" and place_uses(t["place"]):
            out.append(("term", bi, t, "drop"))
    return out


def closure_creations(fn):
    """[(bb, si, local, closure_path, {capture_name: operand})] for closures built in this body."""
    out = []
    for bi, si, s in fn.stmts(lambda s: s["k"] == "assign" and s["rv"].get("agg") == "closure"):
        rv = s["rv"]
        names = rv.get("fields", [])
        caps = {names[i] if i < len(names) else str(i): o for i, o in enumerate(rv["ops"])}
        out.append((bi, si, s["lhs"]["l"], rv["closure"], caps))
    return out


def closure_consumer(fn, local):
    """Follow a closure value through moves to the call that consumes it: (bb, term, argpos) or None."""
    seen = set()
    cur = local
    while cur not in seen:
        seen.add(cur)
        us = uses_of_local(fn, cur)
        nxt = None
        for u in us:
            if u[0] == "term" and u[2]["k"] == "call" and u[3].startswith("arg"):
                return u[1], u[2], int(u[3][3:])
            if u[0] == "stmt":
                s = u[3]
                rv = s["rv"]
                if not s["lhs"]["p"] and ("use" in rv or "ref" in rv):
                    nxt = s["lhs"]["l"]
        if nxt is None:
            return None
        cur = nxt
    return None


FACTS = [None]  # set by run.py: lets helpers follow closure captures into the parent body


def resolve_capture(fn, capname):
    """For a closure body: the expression (in the parent body) that was captured as `capname`: (parent_fn, expr)."""
    facts = FACTS[0]
    if facts is None or fn.b.get("kind") != "Closure":
        return None
    parent = fn.b.get("parent")
    pb = facts.body(fn.b["crate"], parent) if parent else None
    cands = [pb] if pb is not None else []
    # after helper inlining the creation site may live in any body that absorbed the parent
    if pb is None or not any(c[3] == fn.path for c in closure_creations(fn_of(pb))):
        cands = [b for b in facts.bodies_of(fn.b["crate"])]
    for b in cands:
        pf = fn_of(b)
        for c in closure_creations(pf):
            if c[3] == fn.path and capname in c[4]:
                return pf, pf.expr_of_operand(c[4][capname])
    return None


def spawn_closures(fn):
    """Closures built in this body (after helper inlining) that are handed to rayon's ThreadPool::spawn:
    [(bb, si, local, closure_path, captures, spawn_bb, spawn_term)]. Identified by role, not by path."""
    out = []
    for c in closure_creations(fn):
        cons = closure_consumer(fn, c[2])
        if cons is not None and callee(cons[1]) == "rayon::ThreadPool::spawn":
            out.append(c + (cons[0], cons[1]))
    return out


def switch_edges_for(fn, bi):
    """For a switch block return {target_bb: [values]} (otherwise => None in list)."""
    t = fn.blocks[bi]["term"]
    out = {}
    for v, bb in t["arms"]:
        out.setdefault(bb, []).append(v)
    out.setdefault(t["otherwise"], []).append(None)
    return out


def guards_of(fn, target, start=0):
    """Edge guards of `target`: every (switch_bb, succ) such that all paths from entry to target
    pass through that edge. Returns list of (switch_bb, succ_bb, values, discr_expr)."""
    out = []
    for bi in sorted(fn.live):
        t = fn.blocks[bi]["term"]
        if t["k"] != "switch" or len(fn.succ[bi]) < 2:
            continue
        for sb in fn.succ[bi]:
            if fn.must_pass(target, via_edges=[(bi, sb)], start=start) and target in fn.live and target != bi:
                # make sure target is not reachable around the edge
                vals = switch_edges_for(fn, bi).get(sb, [])
                out.append((bi, sb, vals, fn.expr_of_operand(t["discr"])))
    return out


def bool_guard(fn, target, pred_expr, start=0):
    """Is `target` guarded by a bool switch whose discriminant satisfies pred_expr?
    Returns list of truth values (True/False) under which target executes."""
    res = []
    for bi, sb, vals, e in guards_of(fn, target, start):
        if pred_expr(e):
            # bool switch: arm value 0 => false edge, otherwise => true
            if vals == [0]:
                res.append(False)
            elif vals == [None] or vals == [1]:
                res.append(True)
            else:
                res.append(None)
    return res


def head_sources(fn, e, depth=0, seen=None):
    """Where a value comes from: set of callee paths / 'const:..' / 'arg:name' / 'field:..' heads,
    looking through moves, casts, field/downcast projections and multi-def locals."""
    seen = seen if seen is not None else set()
    out = set()
    if not isinstance(e, tuple) or depth > 12:
        return {"?"}
    k = e[0]
    if k == "call":
        out.add(e[1] if isinstance(e[1], str) else "indirect")
    elif k in ("cast",):
        out |= head_sources(fn, e[2], depth + 1, seen)
    elif k in ("downcast", "deref", "ref"):
        out |= head_sources(fn, e[1], depth + 1, seen)
    elif k == "field":
        b = e[1]
        # field of a call result / downcast: the call is the source; field of self: the field
        bb = b
        while isinstance(bb, tuple) and bb[0] in ("downcast", "deref", "ref", "cast"):
            bb = bb[2] if bb[0] == "cast" else bb[1]
        if isinstance(bb, tuple) and bb[0] in ("call", "local"):
            out |= head_sources(fn, bb, depth + 1, seen)
        else:
            out.add("field:" + e[2])
    elif k == "local":
        if e[1] in seen:
            return out
        seen.add(e[1])
        for _, _, d in fn.def_exprs(e[1]):
            out |= head_sources(fn, d, depth + 1, seen)
    elif k == "arg":
        out.add("arg:%s" % e[2])
    elif k == "const":
        out.add("const:%s" % (e[2] or e[1],))
    elif k in ("bin", "checked"):
        out.add("arith:" + e[1])
    elif k == "agg":
        out.add("agg:" + e[1])
    else:
        out.add(k)
    return out


def last_field(place):
    for e in reversed(place["p"]):
        if isinstance(e, dict) and "f" in e:
            return e
        if e == "deref":
            continue
        return None
    return None


def field_assigns(fn, name, of_substr=None, live_only=True):
    """Assignments whose destination ends in field `name` (optionally of a type containing of_substr)."""
    out = []
    rng = sorted(fn.live) if live_only else range(fn.n)
    for bi in rng:
        for si, s in enumerate(fn.blocks[bi]["stmts"]):
            if s["k"] != "assign" or not s["lhs"]["p"]:
                continue
            lf = s["lhs"]["p"][-1]
            if isinstance(lf, dict) and lf.get("name") == name and (of_substr is None or of_substr in (lf.get("of") or "")):
                out.append((bi, si, s))
        t = fn.blocks[bi]["term"]
        if t["k"] == "call" and t["dest"]["p"]:
            lf = t["dest"]["p"][-1]
            if isinstance(lf, dict) and lf.get("name") == name and (of_substr is None or of_substr in (lf.get("of") or "")):
                out.append((bi, "term", t))
        # `mem::replace(&mut x.field, v)` / `mem::take(&mut x.field)` also assign the field: reported as a synthetic
        # assignment statement (index "replace") whose right-hand side is the new value
        if t["k"] == "call" and (callee(t).endswith("mem::replace") or callee(t).endswith("mem::take")) and t.get("args"):
            pl = _mut_borrowed_place(fn, t["args"][0])
            if pl is not None and pl["p"]:
                lf = last_field(pl)
                if lf is not None and pl["p"][-1] is lf and lf.get("name") == name and (of_substr is None or of_substr in (lf.get("of") or "")):
                    if callee(t).endswith("mem::replace"):
                        rv = {"use": t["args"][1]}
                    else:
                        rv = {"use": {"const": {"ty": "?", "text": "Default::default()", "def": "Default::default"}}}
                    out.append((bi, "replace", {"k": "assign", "line": t.get("line", 0), "exp": False, "lhs": pl, "rv": rv, "via": callee(t)}))
    return out


def _mut_borrowed_place(fn, operand):
    """`move _t` with `_t = &mut PLACE` (through reborrows) -> PLACE, else None."""
    p = operand.get("move") or operand.get("copy")
    seen = 0
    while p is not None and not p["p"] and seen < 6:
        seen += 1
        ds = [d for d in fn.defs.get(p["l"], []) if d[2] == "assign"]
        if len(ds) != 1:
            return None
        rv = ds[0][3]
        if "ref" in rv and rv.get("mut"):
            pl = rv["ref"]
            # reborrow `&mut *_x` -> keep following
            if pl["p"] == ["deref"]:
                p = {"l": pl["l"], "p": []}
                continue
            return pl
        if "use" in rv:
            p = rv["use"].get("move") or rv["use"].get("copy")
            continue
        return None
    return None


def field_borrows(fn, name, of_substr=None, mut_only=True):
    out = []
    for bi in sorted(fn.live):
        for si, s in enumerate(fn.blocks[bi]["stmts"]):
            if s["k"] != "assign":
                continue
            rv = s["rv"]
            pl = rv.get("ref") or rv.get("rawptr")
            if pl is None or not pl["p"]:
                continue
            if mut_only and not rv.get("mut"):
                continue
            lf = pl["p"][-1]
            if isinstance(lf, dict) and lf.get("name") == name and (of_substr is None or of_substr in (lf.get("of") or "")):
                out.append((bi, si, s))
    return out


def field_reads(fn, name, of_substr=None):
    """Statements `x = copy/move <place ending in .name>`."""
    out = []
    for bi in sorted(fn.live):
        for si, s in enumerate(fn.blocks[bi]["stmts"]):
            if s["k"] != "assign":
                continue
            rv = s["rv"]
            if "use" in rv:
                p = op_place(rv["use"])
                if p and p["p"]:
                    lf = p["p"][-1]
                    if isinstance(lf, dict) and lf.get("name") == name and (of_substr is None or of_substr in (lf.get("of") or "")):
                        out.append((bi, si, s))
    return out


def is_diverging(fn, bb):
    r = fn.reach_from(bb)
    return not any(x in r for x in fn.returns)


def ret_aggregates(fn):
    """Assignments to _0 (the return place) as (bb, si, rvalue)."""
    out = []
    for bi in sorted(fn.live):
        for si, s in enumerate(fn.blocks[bi]["stmts"]):
            if s["k"] == "assign" and s["lhs"]["l"] == 0 and not s["lhs"]["p"]:
                rv = s["rv"]
                # `_0 = move _t` where _t is the value a folded-in helper returned (`return self.timed_out()`): the
                # aggregate(s) the helper built stand for the assignment, at their own site
                pl = (rv["use"].get("move") or rv["use"].get("copy")) if isinstance(rv.get("use"), dict) else None
                if pl is not None and not pl["p"]:
                    src = _agg_defs(fn, pl["l"])
                    if src:
                        out.extend(src)
                        continue
                out.append((bi, si, rv))
    return out


def _agg_defs(fn, l, depth=0):
    """Aggregate definitions of local l (through moves), or [] if any definition is something else."""
    res = []
    ds = fn.defs.get(l, [])
    if not ds or depth > 4:
        return []
    for dbi, dsi, kind, rv in ds:
        if kind != "assign" or not isinstance(rv, dict):
            return []
        if rv.get("agg"):
            res.append((dbi, dsi, rv))
            continue
        pl = (rv["use"].get("move") or rv["use"].get("copy")) if isinstance(rv.get("use"), dict) else None
        if pl is None or pl["p"]:
            return []
        sub = _agg_defs(fn, pl["l"], depth + 1)
        if not sub:
            return []
        res.extend(sub)
    return res


def bool_param(fn):
    """Index of the unique `bool` parameter of a body (role-based: never rely on its name)."""
    ls = [l for l in range(1, fn.arg_count + 1) if fn.b["locals"][l]["ty"] == "bool"]
    if len(ls) != 1:
        raise Inconclusive("%s: expected exactly one bool parameter, found %d" % (fn.path, len(ls)))
    return ls[0]


def is_arg(e, idx):
    return isinstance(e, tuple) and e and e[0] == "arg" and e[1] == idx


def canon(e):
    """Canonical form of an expression tree for structural comparison: call-site identities, casts,
    references and types erased; operands of commutative operators sorted."""
    if not isinstance(e, tuple) or not e:
        return e
    k = e[0]
    if k in ("ref", "deref"):
        return canon(e[1])
    if k == "cast":
        return canon(e[2])
    if k == "call":
        name = e[1] if isinstance(e[1], str) else "indirect"
        short = name.rsplit("::", 1)[-1]
        args = tuple(canon(a) for a in e[2])
        if short in ("max", "min"):
            args = tuple(sorted(args, key=repr))
        return ("call", short, args)
    if k == "arg":
        return ("arg", e[1])
    if k == "const":
        return ("const", e[1])
    if k == "field":
        return ("field", canon(e[1]), e[2])
    if k in ("bin", "checked"):
        a, b = canon(e[2]), canon(e[3])
        if e[1] in ("Add", "Mul", "BitAnd", "BitOr", "Eq", "Ne"):
            a, b = sorted((a, b), key=repr)
        return ("bin", e[1], a, b)
    if k == "agg":
        return ("agg", e[1], tuple(sorted((n, canon(v)) for n, v in e[2].items())))
    if k == "tuple":
        return ("tuple", tuple(canon(x) for x in e[1]))
    if k == "un":
        return ("un", e[1], canon(e[2]))
    if k == "local":
        return ("local", e[1])
    return (k,) + tuple(canon(x) if isinstance(x, tuple) else x for x in e[1:])


def cond_truth(chosen, allv):
    """Truth value of a bool switch edge."""
    if chosen is None:
        return True if allv == [0] else (False if allv == [1] else None)
    return bool(chosen)


def relation(cond):
    """For a path condition on a comparison: (a, b, set of orderings of a vs b in {'lt','eq','gt'}) or None."""
    e, chosen, allv = cond
    # match on `a.cmp(&b)`: switch on the discriminant of an Ordering (Less = -1 = 255 as u8, Equal = 0, Greater = 1)
    if e[0] == "discr" and isinstance(e[1], tuple) and e[1][0] == "call" and str(e[1][1]).endswith("::cmp") and len(e[1][2]) == 2:
        m = {255: "lt", -1: "lt", 0: "eq", 1: "gt"}
        if chosen is None:
            sets = {"lt", "eq", "gt"} - {m[v] for v in allv if v in m}
        elif chosen in m:
            sets = {m[chosen]}
        else:
            return None
        return canon(e[1][2][0]), canon(e[1][2][1]), sets
    t = cond_truth(chosen, allv)
    if t is None or e[0] != "bin" or e[1] not in ("Gt", "Ge", "Lt", "Le", "Eq", "Ne"):
        return None
    sets = {"Gt": {"gt"}, "Ge": {"gt", "eq"}, "Lt": {"lt"}, "Le": {"lt", "eq"}, "Eq": {"eq"}, "Ne": {"lt", "gt"}}[e[1]]
    if not t:
        sets = {"lt", "eq", "gt"} - sets
    return canon(e[2]), canon(e[3]), sets


def relation_raw(cond):
    """Like relation(), but the two operands are returned as raw (un-canonicalised) expression trees."""
    e, chosen, allv = cond
    if e[0] == "discr" and isinstance(e[1], tuple) and e[1][0] == "call" and str(e[1][1]).endswith("::cmp") and len(e[1][2]) == 2:
        r = relation(cond)
        return None if r is None else (e[1][2][0], e[1][2][1], r[2])
    r = relation(cond)
    if r is None:
        return None
    return e[2], e[3], r[2]


def flip(rel):
    return {"lt": "gt", "gt": "lt", "eq": "eq"}[rel]


# ---------------------------------------------------------------- guard typestate (worker mutex)

class GuardStates:
    """Forward must-dataflow over the normal CFG of one body: which local holds the worker mutex guard.
    Values: 'G' guard, 'S' Some(guard), 'O' Option<guard> fresh from a try-lock (unknown), absent = nothing held.
    Tracks the guard through moves, `Some(g)` wrapping, `(opt as Some).0` unwrapping and discriminant switches,
    so a lock taken in an (inlined) helper that returns `Option<Guard>` is followed like a direct lock."""

    LOCK = ("::lock_arc",)
    TRY = ("::try_lock_arc_for", "::try_lock_arc", "::try_lock_arc_until")

    def __init__(self, fn):
        self.fn = fn
        self.IN = {}
        self.pre_term = {}
        self.acquired_edges = []   # (bb, succ): the guard is held from this edge on
        self.failed_edges = []     # (bb, succ): a try-lock result was found to be None on this edge
        self.moved_into = {}       # bb -> description (closure / call) the guard was handed to
        self._run()

    @staticmethod
    def _plain(p):
        return p is not None and not p["p"]

    def _block(self, bi, st):
        fn = self.fn
        st = dict(st)
        disc = dict(st.get("#disc", {}))
        for s in fn.blocks[bi]["stmts"]:
            if s["k"] != "assign":
                continue
            lhs, rv = s["lhs"], s["rv"]
            newv = None
            if "use" in rv:
                o = rv["use"]
                p = o.get("move") or o.get("copy")
                if p is not None:
                    if self._plain(p) and p["l"] in st:
                        newv = st[p["l"]]
                        if "move" in o:
                            del st[p["l"]]
                    elif len(p["p"]) == 2 and isinstance(p["p"][0], dict) and p["p"][0].get("downcast") == 1 \
                            and isinstance(p["p"][1], dict) and p["p"][1].get("f") == 0 and st.get(p["l"]) == "S":
                        newv = "G"
                        if "move" in o:
                            del st[p["l"]]
            elif rv.get("agg") == "adt" and rv.get("adt", "").endswith("option::Option") and rv.get("variant") == "Some":
                o = rv["ops"][0]
                p = o.get("move") or o.get("copy")
                if p is not None and self._plain(p) and st.get(p["l"]) == "G":
                    newv = "S"
                    del st[p["l"]]
            elif rv.get("agg") == "closure":
                for o in rv["ops"]:
                    p = o.get("move")
                    if p is not None and self._plain(p) and st.get(p["l"]) in ("G", "S"):
                        del st[p["l"]]
                        self.moved_into[bi] = "closure " + rv.get("closure", "?")
            elif "discr" in rv and self._plain(rv["discr"]) and self._plain(lhs):
                disc[lhs["l"]] = rv["discr"]["l"]
            if self._plain(lhs):
                if newv is not None:
                    st[lhs["l"]] = newv
                elif "discr" not in rv:
                    st.pop(lhs["l"], None)
                    disc.pop(lhs["l"], None)
        st["#disc"] = disc
        return st

    def _edges(self, bi, st):
        """Yield (succ, state) for the normal successors of block bi."""
        fn = self.fn
        t = fn.blocks[bi]["term"]
        k = t["k"]
        if k == "call":
            c = callee(t)
            out = dict(st)
            for a in t["args"]:
                p = a.get("move")
                if p is not None and self._plain(p) and out.get(p["l"]) in ("G", "S", "O"):
                    del out[p["l"]]
                    self.moved_into[bi] = "call " + c
            d = t["dest"]
            if self._plain(d):
                out.pop(d["l"], None)
                if c.endswith(self.LOCK):
                    out[d["l"]] = "G"
                    if t["target"] is not None and (bi, t["target"]) not in self.acquired_edges:
                        self.acquired_edges.append((bi, t["target"]))
                elif c.endswith(self.TRY):
                    out[d["l"]] = "O"
            if t["target"] is not None:
                yield t["target"], out
        elif k == "drop":
            out = dict(st)
            p = t["place"]
            if self._plain(p):
                out.pop(p["l"], None)
            yield t["target"], out
        elif k == "switch":
            o = t["discr"]
            p = o.get("move") or o.get("copy")
            src = None
            if p is not None and self._plain(p):
                src = st.get("#disc", {}).get(p["l"])
            v = st.get(src) if src is not None else None
            arms = {b: val for val, b in t["arms"]}
            for s in fn.succ[bi]:
                if v in ("O", "S"):
                    out = dict(st)
                    if arms.get(s) == 1:
                        out[src] = "S"
                        if v == "O" and (bi, s) not in self.acquired_edges:
                            self.acquired_edges.append((bi, s))
                        yield s, out
                    else:
                        if v == "S":
                            continue  # infeasible: the option is known to be Some
                        del out[src]
                        if (bi, s) not in self.failed_edges:
                            self.failed_edges.append((bi, s))
                        yield s, out
                else:
                    yield s, st
        else:
            for s in fn.succ[bi]:
                yield s, st

    @staticmethod
    def _join(a, b):
        if a is None:
            return b
        out = {}
        for k in a:
            if k == "#disc":
                continue
            if k in b:
                x, y = a[k], b[k]
                if x == y:
                    out[k] = x
                elif {x, y} <= {"S", "O"}:
                    out[k] = "O"
        da, db = a.get("#disc", {}), b.get("#disc", {})
        out["#disc"] = {k: v for k, v in da.items() if db.get(k) == v}
        return out

    def _run(self):
        fn = self.fn
        self.IN = {0: {"#disc": {}}}
        work = [0]
        n = 0
        while work:
            n += 1
            if n > 20000:
                raise Inconclusive("guard typestate did not converge in %s" % fn.path)
            b = work.pop()
            st = self._block(b, self.IN[b])
            self.pre_term[b] = st
            for s, out in self._edges(b, st):
                if s not in fn.live:
                    continue
                j = self._join(self.IN.get(s), out)
                if j != self.IN.get(s):
                    self.IN[s] = j
                    work.append(s)

    def held(self, bi):
        """Is a guard certainly held when the terminator of block bi executes?"""
        st = self.pre_term.get(bi)
        if st is None:
            return False
        return any(v in ("G", "S") for k, v in st.items() if k != "#disc")

    def holder(self, bi):
        st = self.pre_term.get(bi) or {}
        return [k for k, v in st.items() if k != "#disc" and v in ("G", "S")]


# ---------------------------------------------------------------- functions over a fieldless enum: decision tables

def enum_fn_table(facts, fn, crate, adt_path):
    """Value of a loop-free `fn(self: Enum) -> bool/int` for every variant of the (fieldless) enum, obtained from
    its flow-sensitive decision paths (helpers new to the inventory are already inlined).  Works for `match`,
    `matches!`, `==`/`!=` against a variant, `!`, `usize::from(bool)`, `as`, `+`… whatever the statement shapes.
    Returns {variant name: value}."""
    from cfg import decision_paths
    adt = facts.adt(crate, adt_path)
    if adt is None:
        raise Inconclusive("enum %s not found" % adt_path)
    discr = {v["name"]: v["discr"] for v in adt["variants"]}
    paths = decision_paths(fn)

    class Unk(Exception):
        pass

    def ev(e, selfv):
        k = e[0]
        if k == "const":
            if isinstance(e[1], bool):
                return int(e[1])
            if isinstance(e[1], int):
                return e[1]
            raise Unk("const %r" % (e[1],))
        if k == "arg" and e[1] == 1:
            return ("enum", selfv)
        if k == "agg" and isinstance(e[1], str) and e[1].rsplit("::", 1)[-1] in discr and not e[2]:
            return ("enum", e[1].rsplit("::", 1)[-1])
        if k in ("ref", "deref"):
            return ev(e[1], selfv)
        if k == "discr":
            v = ev(e[1], selfv)
            if isinstance(v, tuple) and v[0] == "enum":
                return discr[v[1]]
            raise Unk("discriminant of a non-enum")
        if k == "un" and e[1] == "Not":
            v = ev(e[2], selfv)
            return int(not v)
        if k == "cast":
            v = ev(e[2], selfv)
            if isinstance(v, tuple):
                return discr[v[1]]
            return int(v)
        if k in ("bin", "checked"):
            a, b = ev(e[2], selfv), ev(e[3], selfv)
            if isinstance(a, tuple) or isinstance(b, tuple):
                if e[1] in ("Eq", "Ne") and isinstance(a, tuple) and isinstance(b, tuple):
                    return int((a == b) == (e[1] == "Eq"))
                raise Unk("arithmetic on an enum")
            ops = {"Add": a + b, "Sub": a - b, "Mul": a * b, "Eq": int(a == b), "Ne": int(a != b), "Lt": int(a < b), "Le": int(a <= b),
                   "Gt": int(a > b), "Ge": int(a >= b), "BitAnd": a & b, "BitOr": a | b, "BitXor": a ^ b}
            if e[1] in ops:
                return ops[e[1]]
            raise Unk("operator %s" % e[1])
        if k == "call":
            name = str(e[1])
            fnname = str(e[3]) if len(e) > 3 else ""
            if name.endswith("PartialEq>::eq") or name.endswith("PartialEq>::ne") or fnname.endswith("PartialEq::eq") or fnname.endswith("PartialEq::ne") \
                    or name.endswith("PartialEq::eq") or name.endswith("PartialEq::ne"):
                a, b = ev(e[2][0], selfv), ev(e[2][1], selfv)
                is_ne = name.endswith("ne") or (fnname.endswith("ne") and not name.endswith("eq"))
                return int((a == b) != is_ne)
            if name.endswith("::from") or name.endswith("::into"):
                v = ev(e[2][0], selfv)
                if isinstance(v, int):
                    return v
            raise Unk("call of %s" % name)
        raise Unk("expression %s" % k)

    table = {}
    for vname in discr:
        hits = []
        for conds, res in paths:
            ok = True
            for d, chosen, allv in conds:
                try:
                    v = ev(d, vname)
                except Unk as ex:
                    raise Inconclusive("%s: condition not evaluable over the variants of %s (%s)" % (fn.path, adt_path, ex))
                if isinstance(v, tuple):
                    raise Inconclusive("%s: branch on an enum value" % fn.path)
                if (chosen is not None and v != chosen) or (chosen is None and v in allv):
                    ok = False
                    break
            if ok:
                hits.append(res)
        if len(hits) != 1 or hits[0] is None:
            raise Inconclusive("%s: %d decision paths for variant %s" % (fn.path, len(hits), vname))
        try:
            table[vname] = ev(hits[0], vname)
        except Unk as ex:
            raise Inconclusive("%s: result not evaluable for variant %s (%s)" % (fn.path, vname, ex))
    return table


# ---------------------------------------------------------------- effect of a Config "writer" on the Config value

def config_effects(fn, struct_substr="config::Config"):
    """Final value of every field of the Config that `fn` produces (by-value result) or leaves behind (`&mut self`),
    per decision path, as {field: ('const', n) | ('enum', Variant) | ('unchanged',) | ('other', text)}.
    Works for field assignments, struct literals with `..base`, `*self = Config {..}`, clone()+update, helpers."""
    from cfg import decision_paths
    selfty = fn.b["locals"][1]["ty"] if fn.arg_count >= 1 else ""
    by_ref = selfty.startswith("&")
    out = []

    def field_of(e, name, depth=0):
        if depth > 12 or e is None:
            return ("other", "?")
        k = e[0]
        if k in ("ref", "deref") and not (k == "deref" and e[1][0] == "arg"):
            return field_of(e[1], name, depth + 1)
        if k == "deref" and e[1][0] == "arg":
            return ("unchanged",)
        if k == "arg":
            return ("unchanged",)
        if k == "agg" and struct_substr.rsplit("::", 1)[-1] in str(e[1]):
            if name in e[2]:
                return value_of(e[2][name], name, depth + 1)
            return ("other", "field missing")
        if k == "upd":
            if name in e[2]:
                return value_of(e[2][name], name, depth + 1)
            return field_of(e[1], name, depth + 1)
        if k == "call" and (str(e[1]).endswith("Clone>::clone") or str(e[1]).endswith("::clone")):
            return field_of(e[2][0], name, depth + 1)
        return ("other", show(e)[:60])

    def value_of(v, name, depth):
        v = strip_casts(v)
        if v[0] == "const" and isinstance(v[1], (int, bool)):
            return ("const", int(v[1]))
        if v[0] == "agg" and not v[2] and "::" in str(v[1]):
            return ("enum", str(v[1]).rsplit("::", 1)[1])
        if v[0] == "field":
            r = field_of(v[1], v[2], depth + 1)
            if v[2] == name:
                return r
            return ("other", show(v)[:60])
        return ("other", show(v)[:60])

    paths = decision_paths(fn, with_env=True)
    for conds, res, env in paths:
        final = env.get(("mem", 1)) if by_ref else res
        if final is None:
            final = ("deref", ("arg", 1, "self")) if by_ref else None
        if final is None:
            raise Inconclusive("%s: return path without a Config value" % fn.path)
        out.append((conds, final, lambda name, final=final: field_of(final, name)))
    return out


# ---------------------------------------------------------------- iterator pipelines (for-loops written as adaptor chains)

ITER_TOTAL = ("enumerate", "map", "inspect", "rev", "copied", "cloned", "by_ref", "into_iter", "iter", "iter_mut", "peekable")
ITER_SUBSET = ("filter", "filter_map")
ITER_TRUNCATING = ("take", "take_while", "skip", "skip_while", "step_by", "map_while", "scan", "fuse", "chain", "flat_map", "flatten")


def iter_pipeline(fn, sink_term, arg_index=0):
    """Stages of `source.adaptor(..)…` feeding a consuming call (for_each, sum, …), source first:
    [(kind, closure_path_or_None, expr)], kind in source / zip-unbounded / zip / total:<name> / subset:<name> /
    truncating:<name> / unknown:<name>."""
    e = fn.expr_of_operand(sink_term["args"][arg_index])
    stages = []
    while True:
        e0 = e
        while e[0] in ("ref", "deref", "cast"):
            e = e[2] if e[0] == "cast" else e[1]
        if e[0] == "call":
            name = str(e[1])
            short = name.rsplit("::", 1)[-1]
            clo = None
            for a in e[2][1:]:
                if isinstance(a, tuple) and a and a[0] == "closure":
                    clo = a[1]
            if short == "zip":
                other = e[2][1]
                while other[0] in ("ref", "deref", "cast"):
                    other = other[2] if other[0] == "cast" else other[1]
                unb = other[0] == "agg" and str(other[1]).endswith("RangeFrom::RangeFrom")
                stages.append(("zip-unbounded" if unb else "zip", None, other))
                e = e[2][0]
                continue
            if short == "into_iter" and e[2]:
                inner_ = e[2][0]
                while inner_[0] in ("ref", "deref", "cast"):
                    inner_ = inner_[2] if inner_[0] == "cast" else inner_[1]
                if inner_[0] == "call" and str(inner_[1]).rsplit("::", 1)[-1] in ITER_TOTAL + ITER_SUBSET + ITER_TRUNCATING + ("zip",) and "Iterator" in str(inner_[1]):
                    stages.append(("total:into_iter", None, e))      # `for x in iter.adaptor(..)`: identity on an iterator
                    e = e[2][0]
                    continue
            if short in ("iter", "iter_mut", "into_iter") and not ("Iterator::" in name and short != "into_iter"):
                stages.append(("source", None, e))
                break
            if short in ITER_TOTAL:
                stages.append(("total:" + short, clo, e))
            elif short in ITER_SUBSET:
                stages.append(("subset:" + short, clo, e))
            elif short in ITER_TRUNCATING:
                stages.append(("truncating:" + short, clo, e))
            else:
                stages.append(("unknown:" + short, clo, e))
                break
            e = e[2][0]
            continue
        if e[0] == "agg" and (str(e[1]).endswith("Range::Range") or str(e[1]).endswith("RangeInclusive")):
            stages.append(("source", None, e))
            break
        stages.append(("unknown:" + e[0], None, e))
        break
    stages.reverse()
    return stages


def closure_tree(facts, crate, path, depth=0):
    """The closure body and the closures it creates (nested for_each etc.): list of Fn."""
    b = facts.body(crate, path)
    if b is None or depth > 4:
        return []
    f = fn_of(b)
    out = [f]
    for c in closure_creations(f):
        out += closure_tree(facts, crate, c[3], depth + 1)
    return out

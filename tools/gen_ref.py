#!/usr/bin/env python3
"""One-time generator of /verif/ref oracle data (provenance recorded in the outputs).
 - simple_fold_orbits.json: case-folding orbits from regex-syntax 0.8.11's UCD-16 all-pairs table (cargo registry)
 - ucd14_oracle.json: per-scalar data from Python's unicodedata (UCD 14): single-scalar full case folding,
   NFKD 'ASCII letter/digit + combining marks' targets for the documented Latin blocks, assigned scalars."""
import glob, json, os, re, sys, unicodedata
VERIF = os.path.dirname(os.path.dirname(os.path.abspath(__file__)))

def main():
    srcs = glob.glob(os.path.expanduser("~/.cargo/registry/src/*/regex-syntax-0.8.11/src/unicode_tables/case_folding_simple.rs"))
    if not srcs:
        sys.exit("regex-syntax-0.8.11 not in the cargo registry")
    text = open(srcs[0], encoding="utf-8").read()
    body = text[text.index("&["):]
    def ch(s):
        s = s[1:-1]
        if s.startswith("\\u{"):
            return int(s[3:-1], 16)
        if s.startswith("\\"):
            return {"\\'": 39, "\\\\": 92, "\\n": 10, "\\t": 9, "\\r": 13}[s]
        assert len(s) == 1, s
        return ord(s)
    CH = r"'(?:\\u\{[0-9a-fA-F]+\}|\\.|[^'\\])'"
    pairs = {}
    for m in re.finditer(r"\((%s), &\[((?:%s(?:, )?)+)\]\)" % (CH, CH), body):
        k = ch(m.group(1))
        vs = [ch(x) for x in re.findall(CH, m.group(2))]
        pairs[k] = vs
    # orbits = connected components
    parent = {}
    def find(x):
        while parent.setdefault(x, x) != x:
            parent[x] = parent[parent[x]]
            x = parent[x]
        return x
    for k, vs in pairs.items():
        for v in vs:
            parent[find(k)] = find(v)
    orbits = {}
    for x in list(parent):
        orbits.setdefault(find(x), set()).add(x)
    orb = sorted(sorted(o) for o in orbits.values())
    json.dump({"provenance": "regex-syntax 0.8.11 src/unicode_tables/case_folding_simple.rs (ucd-generate case-folding-simple ucd-16.0.0 --chars --all-pairs)",
               "unicode_version": "16.0.0", "orbits": orb}, open(os.path.join(VERIF, "ref", "simple_fold_orbits.json"), "w"))
    print("orbits:", len(orb), "chars:", sum(len(o) for o in orb))
    # UCD-14 oracle from Python
    single_fold = {}
    assigned = []
    for c in range(0x110000):
        if 0xD800 <= c <= 0xDFFF:
            continue
        s = chr(c)
        if unicodedata.category(s) != "Cn":
            assigned.append(c)
        f = s.casefold()
        if len(f) == 1 and f != s:
            single_fold[c] = ord(f)
    # NFKD oracle for the documented blocks
    blocks = [(0x80, 0xFF), (0x100, 0x17F), (0x180, 0x24F), (0x1E00, 0x1EFF), (0x2070, 0x209F)]
    nfkd = {}
    for lo, hi in blocks:
        for c in range(lo, hi + 1):
            d = unicodedata.normalize("NFKD", chr(c))
            if d and ord(d[0]) < 0x80 and (d[0].isalpha() or d[0].isdigit()) and d[0].isascii() and all(unicodedata.category(x).startswith("M") for x in d[1:]) and d != chr(c):
                nfkd[c] = ord(d[0])
    # compress assigned into ranges
    ranges = []
    for c in assigned:
        if ranges and ranges[-1][1] == c - 1:
            ranges[-1][1] = c
        else:
            ranges.append([c, c])
    json.dump({"provenance": "CPython %s unicodedata, UCD %s: str.casefold() where it is a single scalar; unicodedata.normalize('NFKD')" % (sys.version.split()[0], unicodedata.unidata_version),
               "unicode_version": unicodedata.unidata_version, "blocks": blocks,
               "single_scalar_full_fold": {str(k): v for k, v in single_fold.items()},
               "nfkd_ascii_alnum_plus_marks": {str(k): v for k, v in nfkd.items()},
               "assigned_ranges": ranges}, open(os.path.join(VERIF, "ref", "ucd14_oracle.json"), "w"))
    print("single folds:", len(single_fold), "nfkd targets:", len(nfkd), "assigned ranges:", len(ranges))

main()

#!/usr/bin/env python3
"""Writes ref/fn_inventory.json: the named functions (Fn/AssocFn bodies) of the tree the rules were written
against.  rules/inline.py inlines every function that is NOT in this list into its callers (helper extraction is
then invisible to the rules).  Regenerate only when rules are re-anchored on a new decomposition."""
import json, os, sys
VERIF = os.path.dirname(os.path.dirname(os.path.abspath(__file__)))
sys.path.insert(0, os.path.join(VERIF, "rules"))
import engine
d, key, _ = engine.extract_facts()
import re
inv = {"tree_hash": key, "crates": {}, "detail": {}}


def norm_sig(sig):
    return re.sub(r"DefId\([^)]*\)", "D", sig or "")
for name in ("nucleo", "nucleo_matcher"):
    c = json.load(open(os.path.join(d, name + ".json")))
    inv["crates"][name] = sorted(b["path"] for b in c["bodies"] if b["kind"] in ("Fn", "AssocFn"))
    inv["detail"][name] = {}
    for b in c["bodies"]:
        if b["kind"] in ("Fn", "AssocFn"):
            callees = sorted(set((blk["term"].get("resolved") or blk["term"].get("fn") or "?") for blk in b["blocks"] if blk["term"]["k"] == "call"))
            inv["detail"][name][b["path"]] = {"sig": norm_sig(b.get("sig")), "callees": callees, "container": b.get("impl_self") or b["path"].rsplit("::", 1)[0]}
json.dump(inv, open(os.path.join(VERIF, "ref", "fn_inventory.json"), "w"), indent=1)
print({k: len(v) for k, v in inv["crates"].items()})

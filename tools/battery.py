#!/usr/bin/env python3
"""Self-test battery for the checkers (thorough tier / development).
 battery/mutants.json : single-instance breaks; each must make the named rule report a violation
 battery/benign.json  : behaviour-preserving edits; every check must stay silent (exit 0)
Each variant is applied to a scratch copy of /repo (outside /repo and /verif, removed afterwards).
usage: battery.py [mutants|benign|all] [--only id-substring] [-j N]
A battery failure means the CHECKER is broken: exit 2, never a VIOLATION line."""
import json, os, shutil, subprocess, sys, tempfile
from concurrent.futures import ThreadPoolExecutor

VERIF = os.path.dirname(os.path.dirname(os.path.abspath(__file__)))
ALL = ["C01", "C02", "C03", "C04", "C05", "C06", "C08", "C09", "C10", "C11", "C12", "C13", "C14", "C15", "C16", "C17", "C18", "C19", "C20"]


def apply_edits(d, edits):
    for e in edits:
        p = os.path.join(d, e["file"])
        s = open(p, encoding="utf-8").read()
        if "regex" in e:
            import re
            s2, n = re.subn(e["regex"], e["new"], s, flags=re.M)
            if n == 0:
                return "regex not found: %s" % e["regex"][:60]
            s = s2
        else:
            n = s.count(e["old"])
            if n == 0:
                return "pattern not found in %s: %s" % (e["file"], e["old"][:60])
            occ = e.get("occ")
            if occ is None:
                if n != 1 and not e.get("all"):
                    return "pattern occurs %d times in %s: %s" % (n, e["file"], e["old"][:60])
                s = s.replace(e["old"], e["new"])
            else:
                parts = s.split(e["old"])
                s = e["old"].join(parts[:occ + 1]) + e["new"] + e["old"].join(parts[occ + 1:])
        open(p, "w", encoding="utf-8").write(s)
    return None


def run_variant(v, kind):
    os.makedirs("/root/scratch", exist_ok=True)
    d = tempfile.mkdtemp(prefix="bat.", dir="/root/scratch")
    try:
        subprocess.check_call(["rsync", "-a", "--exclude", "target", "--exclude", ".git", "/repo/", d + "/"])
        if "patch" in v:
            r = subprocess.run(["patch", "-p1", "-s", "-i", os.path.join(VERIF, "battery", v["patch"])], cwd=d, capture_output=True, text=True)
            if r.returncode != 0:
                return v["id"], False, "patch does not apply: " + r.stdout[-300:]
        else:
            err = apply_edits(d, v["edits"])
            if err:
                return v["id"], False, err
        if v.get("fmt"):
            subprocess.run(["cargo", "fmt", "--all", "--", "--config", v["fmt"]], cwd=d, capture_output=True)
        env = dict(os.environ, NUCLEO_REPO=d, VERIF_EVIDENCE_DIR=os.path.join(d, ".evidence"))
        props = v.get("props") or (ALL if kind == "benign" else sorted(set(x.split(".")[0] for x in v["expect"])))
        outs = {}
        for p in props:
            r = subprocess.run([os.path.join(VERIF, "check"), p], env=env, capture_output=True, text=True)
            outs[p] = (r.returncode, r.stdout)
        if kind == "benign":
            # documented limits: a check may answer INCONCLUSIVE (exit 2, no VIOLATION line) on this variant
            lim = set(v.get("inconclusive_ok", []))
            bad = {p: o for p, o in outs.items() if o[0] != 0 and not (p in lim and o[0] == 2 and "VIOLATION" not in o[1])}
            if bad:
                msg = "; ".join("%s rc=%d %s" % (p, o[0], " | ".join(l.strip()[:160] for l in o[1].splitlines() if "violation" in l or "INCONCLUSIVE" in l)[:400]) for p, o in bad.items())
                return v["id"], False, "checks not silent on a benign variant: " + msg
            if lim:
                return v["id"], True, "all checks silent except the documented INCONCLUSIVE of %s" % sorted(lim)
            return v["id"], True, "all %d checks silent" % len(props)
        # mutant: every expected rule prefix must appear in a violation line of its property
        missing = []
        for ex in v["expect"]:
            p = ex.split(".")[0]
            rc, out = outs[p]
            hit = any(("violation " + ex) in l for l in out.splitlines())
            if not (rc == 1 and hit):
                missing.append("%s (rc=%d)" % (ex, rc))
        if missing:
            return v["id"], False, "not reported: " + ", ".join(missing)
        return v["id"], True, "reported by " + ", ".join(v["expect"])
    finally:
        shutil.rmtree(d, ignore_errors=True)


def main():
    which = sys.argv[1] if len(sys.argv) > 1 and not sys.argv[1].startswith("-") else "all"
    only = sys.argv[sys.argv.index("--only") + 1] if "--only" in sys.argv else None
    jobs = int(sys.argv[sys.argv.index("-j") + 1]) if "-j" in sys.argv else 8
    todo = []
    if which in ("mutants", "all"):
        for v in json.load(open(os.path.join(VERIF, "battery", "mutants.json"))):
            todo.append((v, "mutant"))
    if which in ("benign", "all"):
        for v in json.load(open(os.path.join(VERIF, "battery", "benign.json"))):
            todo.append((v, "benign"))
    if only:
        todo = [(v, k) for v, k in todo if only in v["id"]]
    ok = True
    with ThreadPoolExecutor(max_workers=jobs) as ex:
        for vid, good, msg in ex.map(lambda a: run_variant(*a), todo):
            print("%-5s %-48s %s" % ("ok" if good else "FAIL", vid, msg[:600]))
            ok = ok and good
    print("battery: %d variants, %s" % (len(todo), "all as expected" if ok else "CHECKER PROBLEMS (see FAIL lines)"))
    return 0 if ok else 2


if __name__ == "__main__":
    sys.exit(main())

"""C10 — the matcher is total, memory-safe and independent of its call history (structural clauses)."""
from cfg import Inconclusive, Poly, op_place, poly_of, show, walk, strip_casts
from common import (calls_to, callee, callee_names, field_chain, fn_of, get_fn, head_sources, peel, site,
                    guards_of, ret_aggregates, uses_of_local, is_diverging, field_assigns, field_borrows)

from common import relation_raw
from cfg import decision_paths, poly_of, Poly

PROP = "C10"
LEVEL = "other"
UNDECIDED = [
    "totality for all input sizes (index/Sub arithmetic inside the slab region rests on row-offset invariants computed from the input)",
    "history independence of the slab (which cells a call reads before writing depends on the input)",
]
ASSUMPTIONS = [
    "Layout::array / Layout::extend compute what std documents",
    "the slab-guard constants are those evaluated by the compiler",
]
M = "nucleo_matcher"
LAYOUT_NEW = "matrix::MatrixLayout::<C>::new"
FIELDS_FROM = "matrix::MatrixLayout::<C>::fieds_from_ptr"
ALLOC = "matrix::MatrixSlab::alloc"


def atom_hn(e):
    """Atoms of the layout constructor: its two length parameters, by position (never by name)."""
    e = strip_casts(e)
    if e[0] == "arg" and e[1] in (1, 2):
        return {1: "h", 2: "n"}[e[1]]
    return None


def _view_extents_by_type(ctx):
    """The carve-up no longer lives in `fieds_from_ptr`: the same comparison by role.  The five regions of the slab have
    five different element types, so `Layout::array::<T>(len)` in the layout constructor and
    `slice_from_raw_parts_mut::<T>(ptr, len)` wherever the views are made are matched by T; both lengths are read as
    polynomials over the haystack length and the needle length (whatever carries them: parameters, fields of a
    dimensions struct, fields of the layout)."""
    facts = ctx.facts
    new = get_fn(facts, M, LAYOUT_NEW)

    def atom(e):
        e = strip_casts(e)
        nm = None
        if e[0] == "arg":
            nm = e[2]
        elif e[0] == "field":
            nm = e[2]
        elif e[0] in ("deref", "ref"):
            return atom(e[1])
        if nm in ("haystack_len", "haystack"):
            return "h"
        if nm in ("needle_len", "needle"):
            return "n"
        return None

    def norm_ty(t):
        return str(t).strip("[]").replace("/#0", "")
    lay = {}
    for bi, t in new.calls(lambda t: callee(t).endswith("Layout::array")):
        lay.setdefault(norm_ty(t.get("fn_args")), []).append((bi, poly_of(new.expr_of_operand(t["args"][0]), atom)))
    views = []
    for b in facts.bodies_of(M):
        if not b["path"].lstrip("<").startswith("matrix::"):
            continue
        f2 = fn_of(b)
        for bi, t in f2.calls(lambda t: callee(t).endswith("slice_from_raw_parts_mut")):
            views.append((f2, bi, norm_ty(t.get("fn_args")), poly_of(f2.expr_of_operand(t["args"][1]), atom)))
    ctx.floor("raw slab views", len(views), 5)
    ctx.floor("regions of the slab layout", len(lay), 5)
    for f2, bi, ty, n in views:
        key = "matrix|view|%s" % ty
        if ty not in lay:
            ctx.violation(key, site(f2, bi), "a [%s] view is carved out of the slab but the layout reserves no region of that element type" % ty)
            continue
        if len(lay[ty]) != 1:
            ctx.fail_closed("several layout regions of element type %s: cannot match the view" % ty)
            continue
        ln = lay[ty][0][1]
        if n.has_opaque() or ln.has_opaque():
            ctx.fail_closed("extent of the [%s] region not polynomial in haystack_len / needle_len: view %s, layout %s" % (ty, n, ln))
            continue
        if n != ln:
            ctx.violation(key, site(f2, bi), "the [%s] view has %s elements but the layout reserves %s: a slice reference reaching outside the matcher's scratch allocation is formed" % (ty, n, ln))
        else:
            ctx.ok(site(f2, bi), "[%s] region: view extent = layout extent = %s" % (ty, n))


def rule_view_extents(ctx):
    facts = ctx.facts
    new = get_fn(facts, M, LAYOUT_NEW)
    if facts.body(M, FIELDS_FROM) is None:
        _view_extents_by_type(ctx)
        return
    ffp = get_fn(facts, M, FIELDS_FROM)
    # layout side: the struct literal's *_off fields
    lit = [s for bi, si, s in new.stmts(lambda s: s["k"] == "assign" and s["rv"].get("agg") == "adt" and s["rv"].get("adt", "").endswith("MatrixLayout"))]
    if len(lit) != 1:
        raise Inconclusive("MatrixLayout::new: struct literal not found")
    # the extents argument below is about layouts made by MatrixLayout::<C>::new: no other code may make one (a layout
    # rebuilt from stored numbers -- a memo, a copy made for another element type -- carries offsets that were not
    # computed from this C's size and alignment)
    n_lit = 0
    for b in facts.bodies_of(M):
        f2 = fn_of(b)
        for bi, si, s_ in f2.stmts(lambda s_: s_["k"] == "assign" and s_["rv"].get("agg") == "adt" and s_["rv"].get("adt", "").endswith("MatrixLayout")):
            n_lit += 1
            if f2.path != new.path:
                ctx.violation("%s|MatrixLayout-literal|outside-new" % f2.path, site(f2, bi, si),
                              "a MatrixLayout is assembled in %s instead of MatrixLayout::new: its offsets are not derived from the element type's layout, so the views carved "
                              "from it can overlap (a shape computed for 1-byte characters applied to 4-byte ones)" % f2.path)
    names = lit[0]["rv"]["fields"]
    # every scalar field of the layout struct as a polynomial of the constructor's parameters: the view side may
    # use any of them (haystack_len, needle_len, a cached row width, ...)
    field_poly = {}
    for i, nm in enumerate(names):
        pe = poly_of(new.expr_of_operand(lit[0]["rv"]["ops"][i]), atom_hn)
        if not pe.has_opaque():
            field_poly[nm] = pe

    def atom_view(e):
        e = strip_casts(e)
        if e[0] == "field" and e[2] in field_poly and peel(e[1])[0] == "arg" and peel(e[1])[1] == 1:
            return "F:" + e[2]
        return None

    def view_poly(e):
        pv = poly_of(e, atom_view)
        # substitute the field polynomials
        out = Poly.const(0)
        for mon, coef in pv.t.items():
            term = Poly.const(coef)
            for a_ in mon:
                term = term * (field_poly[a_[2:]] if a_.startswith("F:") else Poly.atom(a_))
            out = out + term
        return out
    layout_of = {}
    for i, nm in enumerate(names):
        if not nm.endswith("_off"):
            continue
        e = new.expr_of_operand(lit[0]["rv"]["ops"][i])
        # (unwrap(extend(prev, X_layout))).1
        arr = None
        for x in walk(e):
            if x[0] == "call" and str(x[1]).endswith("Layout::extend"):
                xl = x[2][1]
                for y in walk(xl):
                    if y[0] == "call" and str(y[1]).endswith("Layout::array"):
                        t = new.blocks[y[4][0]]["term"]
                        arr = (t["fn_args"].strip("[]"), poly_of(y[2][0], atom_hn))
                break
        if arr is None:
            ctx.fail_closed("cannot resolve the layout of region %s" % nm)
            continue
        layout_of[nm] = arr
    # view side
    views = []
    for bi, t in ffp.calls(lambda t: callee(t).endswith("slice_from_raw_parts_mut")):
        ptr = ffp.expr_of_operand(t["args"][0])
        n = view_poly(ffp.expr_of_operand(t["args"][1]))
        off = None
        for x in walk(ptr):
            if x[0] == "call" and str(x[1]).endswith("::add"):
                o = x[2][1]
                if o[0] == "field" and o[2].endswith("_off"):
                    off = o[2]
        ty = t["fn_args"].strip("[]")
        views.append((bi, off, ty, n))
    ctx.floor("raw slab views", len(views), 5)
    for bi, off, ty, n in views:
        key = "%s|view|%s" % (FIELDS_FROM, off)
        if off not in layout_of:
            ctx.violation(key, site(ffp, bi), "view at offset field %s has no matching layout region" % off)
            continue
        lty, ln = layout_of[off]
        lty_n = lty.replace("/#0", "")
        ty_n = ty.replace("/#0", "")
        if n.has_opaque() or ln.has_opaque():
            ctx.fail_closed("extent of region %s not polynomial in haystack_len/needle_len: %s / %s" % (off, n, ln))
            continue
        if ty_n != lty_n:
            ctx.violation(key, site(ffp, bi), "region %s is laid out as [%s] but viewed as [%s]" % (off, lty_n, ty_n))
        elif n != ln:
            ctx.violation(key, site(ffp, bi),
                          "region %s: the view has %s elements but the layout reserves %s (of %s): a slice reference reaching outside the matcher's scratch allocation is formed" % (off, n, ln, lty_n))
        else:
            ctx.ok(site(ffp, bi), "region %s: view extent = layout extent = %s × %s" % (off, n, lty_n))
    # offsets used in the view are the ones produced by the matching extend: by construction of layout_of (field name match)
    if set(layout_of) != set(v[1] for v in views):
        ctx.violation(FIELDS_FROM + "|regions|1", site(ffp, 0), "layout regions %s vs views %s" % (sorted(layout_of), sorted(str(v[1]) for v in views)))


def rule_slab_guards(ctx):
    facts = ctx.facts
    fn = get_fn(facts, M, ALLOC)
    def is_carve(name):
        # the carve-up: fieds_from_ptr, or -- when it has been dissolved -- the raw views themselves
        return name == FIELDS_FROM or (facts.body(M, FIELDS_FROM) is None and str(name).endswith("slice_from_raw_parts_mut"))
    carve = [(bi, t) for bi, t in fn.calls(lambda t: is_carve(callee(t)))]
    if not carve or (facts.body(M, FIELDS_FROM) is not None and len(carve) != 1):
        raise Inconclusive("MatrixSlab::alloc: the carve-up of the slab (fieds_from_ptr / raw slice views) not found")
    cb, ct = carve[0]
    consts = {p: facts.const(M, p)["value"] for p in ("matrix::MAX_MATRIX_SIZE", "matrix::MAX_NEEDLE_LEN", "matrix::MAX_HAYSTACK_LEN")}
    # roles (not names): H = len of the slice parameter, N = the usize parameter
    slice_args = [l for l in range(1, fn.arg_count + 1) if fn.b["locals"][l]["ty"].startswith("&[")]
    usize_args = [l for l in range(1, fn.arg_count + 1) if fn.b["locals"][l]["ty"] == "usize"]
    if len(slice_args) != 1 or len(usize_args) != 1:
        raise Inconclusive("MatrixSlab::alloc: expected one slice and one usize parameter")
    SL, NL = slice_args[0], usize_args[0]

    # the layout the slab itself is allocated with: Layout::new::<MatcherData>() or a named constant holding it
    slab_layout_const = None
    nf0 = get_fn(facts, M, "matrix::MatrixSlab::new")
    for bi0, t0 in nf0.calls(lambda t: callee(t) in ("std::alloc::alloc", "std::alloc::alloc_zeroed")):
        l0 = peel(nf0.expr_of_operand(t0["args"][0]))
        while l0[0] in ("ref", "deref"):
            l0 = peel(l0[1])
        if l0[0] in ("const", "constx"):
            slab_layout_const = str(l0[2] if l0[0] == "const" else l0[1])

    def base_arg(x):
        x = peel(x)
        while x[0] in ("ref", "deref", "cast"):
            x = peel(x[2] if x[0] == "cast" else x[1])
        return x

    def atomizer(x):
        x = strip_casts(x)
        if x[0] == "call" and str(x[1]).endswith("[T]>::len") and base_arg(x[2][0])[:2] == ("arg", SL):
            return "H"
        if x[0] == "arg" and x[1] == NL:
            return "N"
        if x[0] == "call" and str(x[1]).endswith("Layout::size"):
            # size of the slab's own layout (a named constant the slab is allocated with) vs size of the carved layout
            recv = peel(x[2][0])
            while recv[0] in ("ref", "deref"):
                recv = peel(recv[1])
            if recv[0] in ("const", "constx") and slab_layout_const and slab_layout_const in [str(y) for y in recv[1:3]]:
                return "SLAB_SIZE"
            return "LAYOUT_SIZE"
        if x[0] == "call" and str(x[1]).endswith("size_of"):
            return "SLAB_SIZE" if "MatcherData" in str(fn.blocks[x[4][0]]["term"].get("fn_args", "")) else "?size_of"
        return None

    H, N = Poly.atom("H"), Poly.atom("N")
    need = {"cells": (H * N, Poly.const(consts["matrix::MAX_MATRIX_SIZE"])), "haystack": (H, Poly.const(65535)),
            "needle": (N, Poly.const(consts["matrix::MAX_NEEDLE_LEN"])), "layout": (Poly.atom("LAYOUT_SIZE"), Poly.atom("SLAB_SIZE"))}
    why = {"cells": "haystack_len × needle_len ≤ MAX_MATRIX_SIZE", "haystack": "haystack_len ≤ u16::MAX (column indices are u16)",
           "needle": "needle_len ≤ MAX_NEEDLE_LEN (keeps DP scores below u16::MAX)", "layout": "layout.size() ≤ size_of::<MatcherData>() (the slab)"}
    # path-sensitive: on every decision path that reaches the carve-up, the conditions taken imply each bound
    # (whatever the spelling: `a > M || ..` early return, `let fits = a <= M && ..`, nested ifs)
    paths = [(c_, r_, k_) for c_, r_, k_ in decision_paths(fn, with_calls=True) if any(is_carve(x[0]) for x in k_)]
    if not paths:
        raise Inconclusive("MatrixSlab::alloc: no decision path reaches fieds_from_ptr")
    missing = {k: 0 for k in need}
    for conds, res, calls in paths:
        known = []
        for cnd in conds:
            r = relation_raw(cnd)
            if r is None:
                continue
            x, y, st = r
            known.append((poly_of(x, atomizer) - poly_of(y, atomizer), st))
        for k, (lhs, rhs) in need.items():
            d = lhs - rhs
            okk = any((dd == d and st <= {"lt", "eq"}) or (dd == (rhs - lhs) and st <= {"gt", "eq"}) for dd, st in known)
            if not okk:
                missing[k] += 1
    for k in need:
        if missing[k] == 0:
            ctx.ok(site(fn, cb), "on all %d path(s) to the carve-up: %s" % (len(paths), why[k]))
        else:
            ctx.violation("%s|guard|%s" % (ALLOC, k), site(fn, cb), "the unsafe carve-up of the slab is reachable without the check `%s`" % why[k])
    # the copy into the haystack view uses the source slice and its own length
    cp = [(bi, t) for bi, t in fn.calls(lambda t: callee(t).endswith("copy_to_nonoverlapping"))]
    for bi, t in cp:
        cnt = poly_of(fn.expr_of_operand(t["args"][2]), atomizer)
        src = fn.expr_of_operand(t["args"][0])
        src_ok = any(x[0] == "arg" and x[1] == SL for x in walk(src))
        if cnt == H and src_ok:
            ctx.ok(site(fn, bi), "haystack copied with its own length into the haystack view")
        else:
            ctx.violation("%s|copy-len|1" % ALLOC, site(fn, bi), "copy into the slab uses count %s" % cnt)
    # same layout type for allocation and deallocation of the slab
    nf = get_fn(facts, M, "matrix::MatrixSlab::new")
    df = get_fn(facts, M, "<matrix::MatrixSlab as std::ops::Drop>::drop")
    la = [t.get("fn_args") for bi, t in nf.calls(lambda t: callee(t).endswith("Layout::new"))]
    ld = [t.get("fn_args") for bi, t in df.calls(lambda t: callee(t).endswith("Layout::new"))]

    def layout_arg(f_, names, pos):
        out_ = []
        for b_, t_ in f_.calls(lambda t: callee(t) in names):
            l_ = peel(f_.expr_of_operand(t_["args"][pos]))
            while l_[0] in ("ref", "deref"):
                l_ = peel(l_[1])
            out_.append(str(l_[2] if l_[0] == "const" else l_[1]) if l_[0] in ("const", "constx") else None)
        return out_
    ca_ = layout_arg(nf, ("std::alloc::alloc", "std::alloc::alloc_zeroed"), 0)
    cd_ = layout_arg(df, ("std::alloc::dealloc",), 1)
    if la and la == ld and "MatcherData" in la[0]:
        ctx.ok(site(nf, 0), "slab allocated and freed with Layout::new::<MatcherData>()")
    elif ca_ and cd_ and ca_[0] is not None and set(ca_) == set(cd_) and len(set(ca_)) == 1:
        ctx.ok(site(nf, 0), "slab allocated and freed with the same named layout constant %s" % ca_[0])
    else:
        ctx.violation("matrix::MatrixSlab|layout-pair|1", site(df, 0), "slab allocated with %s but freed with %s" % (la, ld))
    if consts["matrix::MAX_NEEDLE_LEN"] <= 65536 and consts["matrix::MAX_HAYSTACK_LEN"] <= 65536:
        ctx.ok("matrix.rs constants", "MAX_NEEDLE_LEN=%d, MAX_HAYSTACK_LEN=%d fit u16 indices" % (consts["matrix::MAX_NEEDLE_LEN"], consts["matrix::MAX_HAYSTACK_LEN"]))
    else:
        ctx.violation("matrix|limits|1", "matcher/src/matrix.rs", "slab limits exceed u16 index range: %s" % consts)
    # MatcherData (the slab) has room for the worst case admitted by the guards? size check is dynamic (layout.size() guard): ok.


def rule_u16_overflow(ctx):
    from props.c03 import rule_no_wrap
    rule_no_wrap(ctx)


W = {"u8": 8, "u16": 16, "u32": 32, "u64": 64, "usize": 64, "char": 32, "bool": 1, "i32": 32, "isize": 64, "u128": 128}
SKIP_TRAITS = ("std::cmp::PartialEq", "std::cmp::PartialOrd", "std::cmp::Ord", "std::hash::Hash", "std::fmt::Debug", "std::clone::Clone")


def rule_truncating_casts(ctx):
    from props.c03 import Bounds, bonus_table, slab_region, SCHEME
    facts = ctx.facts
    fnb, order, table = bonus_table(ctx)
    d = facts.const(M, "config::Config::DEFAULT")["value"]
    leaves_const = [l[1] for l in table.values() if l[0] == "const"]
    fields = set(l[1] for l in table.values() if l[0] == "field")
    cfgs = [dict(d), dict(d, bonus_boundary_white=facts.const(M, "score::BONUS_BOUNDARY")["value"])]
    maxb = max(leaves_const + [c[f] for c in cfgs for f in fields])
    region, problems = slab_region(ctx)
    mn = facts.const(M, "matrix::MAX_NEEDLE_LEN")["value"]
    fmo = "fuzzy_optimal::<impl Matcher>::fuzzy_match_optimal"
    n = 0
    for b in facts.bodies_of(M):
        if b.get("impl_trait") in SKIP_TRAITS:
            continue
        fn = fn_of(b)
        root = fn.b.get("root", fn.path)
        bd = Bounds(ctx, fn, maxb, in_region=root in region, max_needle=mn)
        k = 0
        for bi, si, s in fn.stmts(lambda s: s["k"] == "assign" and s["rv"].get("kind") == "IntToInt"):
            rv = s["rv"]
            if rv["to"] not in ("u16", "u8") or W.get(rv["to"], 99) >= W.get(rv["from"], 0):
                continue
            n += 1
            k += 1
            key = "%s|cast-%s|%d" % (fn.path, rv["to"], k)
            e = fn.expr_of_operand(rv["cast"])
            lim = 65535 if rv["to"] == "u16" else 255
            ub = bd.bound(e, bi)
            if ub is not None and ub <= lim:
                ctx.ok(site(fn, bi, si), "`as %s` of a value bounded by %d" % (rv["to"], ub))
                continue
            if rv["from"] == "char":
                gs = guards_of(fn, bi)
                if any(g[3][0] == "call" and str(g[3][1]).endswith("is_ascii") and g[2] in ([None], [1]) for g in gs):
                    ctx.ok(site(fn, bi, si), "char → u8 only under is_ascii()")
                    continue
            if root in region and rv["to"] == "u16":
                ctx.ok(site(fn, bi, si), "`as u16` of an index inside the slab-guarded region (haystack ≤ u16::MAX columns, needle ≤ %d rows)" % mn)
                continue
            if fn.path == fmo:
                # match_end: index into current_row (≤ haystack window ≤ u16::MAX by the slab guard)
                alloc = [(ab, at) for ab, at in fn.calls(lambda t: callee(t).endswith("MatrixSlab::alloc"))]
                if alloc:
                    sw = fn.blocks[alloc[0][1]["target"]]["term"]
                    some = [(alloc[0][1]["target"], bb) for v, bb in sw.get("arms", []) if v == 1]
                    if some and fn.must_pass(bi, via_edges=some):
                        ctx.ok(site(fn, bi, si), "`as %s` of a column index after a successful slab allocation (window ≤ u16::MAX)" % rv["to"])
                        continue
            # no bound found: a violation when the value is a position / length / count (unbounded by nature, what this
            # rule is about); for any other quantity (a score held in a field, say) the bound is simply not known
            hs_ = head_sources(fn, e)
            positional = rv["from"] in ("usize", "u64", "char") or any(any(k_ in h_ for k_ in ("enumerate", "::len", "::count", "position", "Iterator::next", "arg:")) for h_ in hs_)
            if not positional:
                ctx.fail_closed("%s: `%s as %s` of %s: no bound for this value is known to the analysis (neither a position behind the slab guards nor clamped)" % (site(fn, bi, si), rv["from"], rv["to"], show(e)[:80]))
                continue
            ctx.violation(key, site(fn, bi, si), "truncating cast `%s as %s` of %s with no bound in sight (no `.min(%s::MAX)`, not behind the slab guards)" % (rv["from"], rv["to"], show(e)[:90], rv["to"]))
    ctx.floor("truncating casts to u16/u8", n, 8)


def rule_reject_no_panic(ctx):
    """"Returns without panicking for any needle": when the matrix set-up finds no place for the needle (`setup`
    answers false) the optimal matcher must answer None.  An explicit panic on that edge turns an input the
    prefilter let through (a needle the caller did not normalise: the ASCII prefilter looks for an upper-case needle
    byte as it is, `setup` compares it with the folded haystack) into a crash.  Narrow on purpose: only the reject
    edge of `setup` in `fuzzy_match_optimal`; when the function has another shape the clause says so and decides nothing."""
    facts = ctx.facts
    cands = [b for b in facts.bodies_of(M) if b["path"].endswith("::fuzzy_match_optimal") and b.get("kind") != "Closure"]
    if not cands:
        ctx.note("fuzzy_match_optimal not found: reject edge not examined")
        return
    fn = fn_of(cands[0])
    k = 0
    for bi in sorted(fn.live):
        t = fn.blocks[bi]["term"]
        if t["k"] != "switch":
            continue
        e = strip_casts(fn.expr_of_operand(t["discr"]))
        neg = False
        while e[0] == "un" and e[1] == "Not":
            e = strip_casts(e[2])
            neg = not neg
        if not (e[0] == "call" and str(e[1]).endswith("::setup")):
            continue
        zero = [b_ for v, b_ in t["arms"] if v == 0]
        if not zero:
            continue
        rejected = t["otherwise"] if neg else zero[0]
        k += 1
        key = "%s|reject-edge|%d" % (fn.path, k)
        region = fn.reach_from(rejected)
        bad = [b_ for b_ in sorted(region) if fn.blocks[b_]["term"]["k"] == "call" and fn.blocks[b_]["term"].get("target") is None
               and any(x in callee(fn.blocks[b_]["term"]) for x in ("panicking::", "panic_fmt", "assert_failed", "unwrap_failed", "expect_failed"))]
        if bad:
            ctx.violation(key, site(fn, bad[0]),
                          "fuzzy_match_optimal panics when `setup` finds no match and both strings are ASCII (\"should have been caught by prefilter\"): "
                          "the ASCII prefilter searches an upper-case needle byte as it is, `setup` compares it with the folded haystack, e.g. "
                          "fuzzy_match(\"fooBar\", \"oB\") with the default configuration; the documentation promises only that an un-normalised needle may fail to match")
        else:
            ctx.ok(site(fn, bi), "the reject edge of setup leads to `return None` without an explicit panic")
    if k == 0:
        ctx.note("no branch on the result of setup in fuzzy_match_optimal: reject edge not examined")


def rule_len_asserts(ctx):
    """Every `as u32` of a haystack position is preceded, on every call chain from a public Matcher
    method, by the `haystack.len() <= u32::MAX` assertion."""
    facts = ctx.facts
    bodies = {b["path"]: fn_of(b) for b in facts.bodies_of(M)}

    def assert_blocks(fn):
        out = []
        for bi in sorted(fn.live):
            t = fn.blocks[bi]["term"]
            if t["k"] != "switch":
                continue
            e = fn.expr_of_operand(t["discr"])
            if e[0] == "bin" and e[1] == "Le" and strip_casts(e[3])[0] == "const" and strip_casts(e[3])[1] == 4294967295:
                a = e[2]
                if a[0] == "call" and (str(a[1]).endswith("Utf32Str::<'a>::len") or str(a[1]).endswith("[T]>::len")) and "haystack" in show(a):
                    ft = [b_ for v, b_ in t["arms"] if v == 0]
                    if ft and is_diverging(fn, ft[0]):
                        out.append((bi, t["otherwise"]))
        return out

    cast_bodies = {}
    for p, fn in bodies.items():
        if fn.b.get("impl_trait") in SKIP_TRAITS or p.startswith("utf32_str::") or p.startswith("pattern::"):
            continue
        for bi, si, s in fn.stmts(lambda s: s["k"] == "assign" and s["rv"].get("kind") == "IntToInt" and s["rv"]["to"] == "u32" and s["rv"]["from"] == "usize"):
            cast_bodies.setdefault(p, []).append((bi, si))
    ctx.floor("bodies with usize → u32 position casts", len(cast_bodies), 4)
    public = set(p for p, fn in bodies.items() if p.startswith("Matcher::") and fn.b.get("vis", "").startswith("Public") or (p.startswith("Matcher::") and "Public" in str(fn.b.get("vis"))))
    memo = {}

    def protected(p, point_blocks, stack=()):
        """Are all executions reaching `point_blocks` of body p preceded by the assertion?"""
        fn = bodies[p]
        ab = assert_blocks(fn)
        edges = [(a, t) for a, t in ab]
        unprotected_here = [pb for pb in point_blocks if not (edges and fn.must_pass(pb, via_edges=edges))]
        if not unprotected_here:
            return True, None
        # rely on callers
        root = fn.b.get("root", p)
        if root != p:
            # closure: treat as running inside its root at the creation site (conservative: whole root)
            return protected(root, [0], stack)
        if p in public:
            return False, "%s is public and reaches the cast without the assertion" % p
        key = p
        if key in memo:
            return memo[key]
        if p in stack:
            return True, None
        callers = calls_to(facts, M, lambda t: callee(t) == p or t.get("fn") == p)
        if not callers:
            res = (False, "%s has no callers with the assertion" % p)
            memo[key] = res
            return res
        for cf, cbi, ct in callers:
            ok_, why = protected(cf.path, [cbi], stack + (p,))
            if not ok_:
                memo[key] = (False, why)
                return memo[key]
        memo[key] = (True, None)
        return memo[key]

    for p, sites_ in sorted(cast_bodies.items()):
        fn = bodies[p]
        ok_, why = protected(p, [bi for bi, si in sites_])
        if ok_:
            ctx.ok(site(fn, sites_[0][0], sites_[0][1]), "position casts to u32 are preceded by `haystack.len() <= u32::MAX` on every call chain from the public API")
        else:
            ctx.violation("%s|u32-cast|1" % p, site(fn, sites_[0][0], sites_[0][1]), "a haystack position is truncated to u32 without the 2^32 length assertion on some call chain: %s" % why)
    n_assert = sum(len(assert_blocks(fn)) for fn in bodies.values())
    ctx.floor("`haystack.len() <= u32::MAX` assertion sites", n_assert, 5)


EXPECTED_UNSAFE_OWNERS = {"chars::AsciiChar::cast", "matrix::MatrixSlab::new", "matrix::MatrixSlab::alloc", "<matrix::MatrixSlab as std::ops::Drop>::drop"}
EXPECTED_UNSAFE_FNS = {FIELDS_FROM}


def rule_unsafe_inventory(ctx):
    facts = ctx.facts
    owners = set(u["owner"] for u in facts.crate(M)["unsafe_blocks"])
    for o in sorted(owners):
        if o in EXPECTED_UNSAFE_OWNERS:
            ctx.ok(o, "unsafe block covered by C10.view-extents / C10.slab-guards" if "matrix" in o else "unsafe block: repr(transparent) slice cast")
        else:
            ctx.fail_closed("new unsafe block in %s: not covered by any rule, needs review" % o)
    for b in facts.bodies_of(M):
        if b.get("unsafe"):
            if b["path"] in EXPECTED_UNSAFE_FNS:
                ctx.ok(b["path"], "unsafe fn called only from MatrixSlab::alloc")
                cs = calls_to(facts, M, lambda t: callee(t) == b["path"])
                for fn, bi, t in cs:
                    if fn.path != ALLOC:
                        ctx.violation("%s|caller|%s" % (b["path"], fn.path), site(fn, bi), "%s called outside MatrixSlab::alloc (its four guards)" % b["path"])
            else:
                ctx.fail_closed("new unsafe fn %s" % b["path"])
    # AsciiChar must stay repr(transparent) over u8 for the cast
    a = facts.adt(M, "chars::AsciiChar")
    if a and "TRANSPARENT" in a["repr"].upper() and [f["ty"] for f in a["variants"][0]["fields"]] == ["u8"]:
        ctx.ok("chars::AsciiChar", "repr(transparent) over u8 (precondition of AsciiChar::cast)")
    else:
        ctx.violation("chars::AsciiChar|repr|1", "matcher/src/chars.rs", "AsciiChar is no longer a repr(transparent) wrapper of u8: AsciiChar::cast reinterprets &[u8] as &[AsciiChar]")


def rule_config_only_state(ctx):
    facts = ctx.facts
    m = facts.adt(M, "Matcher")
    fields = [(f["name"], f["ty"]) for f in m["variants"][0]["fields"]]
    if [f[0] for f in fields] == ["config", "slab"]:
        ctx.ok("Matcher", "state = config + scratch slab")
    else:
        rule_live_config(ctx, report_unknown=True)
    slab = facts.adt(M, "matrix::MatrixSlab")
    sf = [(f["name"], f["ty"]) for f in slab["variants"][0]["fields"]] if slab else []
    if len(sf) == 1 and "NonNull" in sf[0][1]:
        ctx.ok("MatrixSlab", "the scratch slab is just the allocation: nothing but cell contents (rewritten by setup before they are read) survives a call")
    else:
        ctx.fail_closed("MatrixSlab carries state besides its allocation (%s): a value remembered from an earlier call can influence a later one" % sf)
    for b in facts.bodies_of(M):
        fn = fn_of(b)
        for fld in ("ignore_case", "normalize", "prefer_prefix", "delimiter_chars", "bonus_boundary_white", "bonus_boundary_delimiter", "initial_char_class"):
            for bi, si, s in field_assigns(fn, fld, "config::Config"):
                base = fn.expr_of_place({"l": s["lhs"]["l"], "p": s["lhs"]["p"][:-1]}) if si != "term" else None
                through_matcher = base is not None and any(x[0] == "field" and x[2] == "config" and "Matcher" in (x[3] or "") for x in walk(base))
                if not through_matcher:
                    continue  # Config builder methods operate on a Config value, not on a Matcher
                if fn.path in ("pattern::Atom::score", "pattern::Atom::indices"):
                    ctx.ok(site(fn, bi, si), "documented overwrite of matcher.config.%s by the atom" % fld)
                else:
                    ctx.violation("%s|Matcher.config.%s|write" % (fn.path, fld), site(fn, bi, si), "matcher configuration mutated inside the crate outside Atom::score/indices: later calls on the same Matcher see a different configuration")
    for k in facts.crate(M)["consts"]:
        if k["kind"] == "static" and ("Cell" in (k.get("ty") or "") or "Atomic" in (k.get("ty") or "") or "Mutex" in (k.get("ty") or "")):
            ctx.violation("%s|static-mut|1" % k["path"], k["path"], "mutable global state in the matcher crate")
    for a in facts.crate(M)["adts"]:
        for v in a["variants"]:
            for f in v["fields"]:
                if any(x in f["ty"] for x in ("Cell<", "RefCell<", "Atomic", "Mutex<", "UnsafeCell<", "OnceLock", "OnceCell")):
                    ctx.violation("%s|field %s|interior-mut" % (a["path"], f["name"]), a["path"], "interior mutability in matcher type %s.%s: results can depend on call history" % (a["path"], f["name"]))
    ctx.ok("crate nucleo_matcher", "no mutable statics, no interior mutability in any type")


def rule_live_config(ctx, report_unknown=False):
    """`Matcher::config` is a public field: callers reconfigure a live matcher by assigning to it (Nucleo::update_config
    does).  Any other Matcher field whose value is computed from the configuration when the matcher is constructed and
    that the matching code reads is a cache without an invalidation path: after a reconfiguration part of the matcher
    follows the old configuration and part the new one.  (C10: result depends on history; C03/C04: the score is no
    longer the scheme of the current configuration.)"""
    import json as _json
    facts = ctx.facts
    m = facts.adt(M, "Matcher")
    flds = m["variants"][0]["fields"]
    extra = [f for f in flds if f["name"] not in ("config", "slab")]
    cfg_public = any(f["name"] == "config" and f.get("vis") == "Public" for f in flds)
    if not extra:
        ctx.ok("Matcher", "no state besides the (public) configuration and the scratch slab: nothing can lag behind a reconfiguration")
        return
    for f in extra:
        name = f["name"]
        derived = []
        ctor_sites = 0
        for b in facts.bodies_of(M):
            fn = fn_of(b)
            for bi, si, s_ in fn.stmts(lambda s_: s_["k"] == "assign" and s_["rv"].get("agg") == "adt" and s_["rv"].get("adt") == "Matcher"):
                ctor_sites += 1
                names = s_["rv"]["fields"]
                if name not in names:
                    continue
                op_ = s_["rv"]["ops"][names.index(name)]
                e = fn.expr_of_operand(op_)
                dep = any((x[0] == "arg" and x[2] == "config") or (x[0] in ("const", "constx", "static") and "Config" in str(x[1:])) or
                          (x[0] == "call" and "Config" in str(x[1])) for x in walk(e))
                pl_ = op_.get("move") or op_.get("copy")
                if not dep and pl_ is not None:
                    from common import local_sources
                    ls, ks, cs = local_sources(fn, [pl_["l"]])
                    dep = any(1 <= l_ <= fn.arg_count and fn.names.get(l_) == "config" for l_ in ls) or any("Config" in k_ for k_ in ks) or any("Config" in c_ for c_ in cs)
                if dep:
                    derived.append((fn, bi, si, e))
        writers = []
        readers = []
        for b in facts.bodies_of(M):
            fn = fn_of(b)
            for bi, si, s_ in field_assigns(fn, name, "Matcher"):
                writers.append((fn, bi))
            js = _json.dumps(b["blocks"])
            if ('"name": "%s"' % name) in js and fn.path not in ("<Matcher as std::clone::Clone>::clone", "<Matcher as std::fmt::Debug>::fmt"):
                readers.append(fn.path)
        key = "Matcher.%s|stale-config-cache" % name
        if derived and readers and cfg_public and not writers:
            fn, bi, si, e = derived[0]
            ctx.violation(key, site(fn, bi, si),
                          "Matcher.%s is computed from the configuration when the matcher is built (%s) and read by %s, but `Matcher::config` is a public field that callers "
                          "reassign on a live matcher (Nucleo::update_config): nothing refreshes the cached value, so after a reconfiguration these routines follow the old "
                          "configuration while the others follow the new one" % (name, show(e)[:70], sorted(set(readers))[:3]))
        elif not readers:
            ctx.ok("Matcher.%s" % name, "new field is never read by the matching code")
        elif report_unknown:
            ctx.fail_closed("Matcher has a new field `%s` (%s) that the matching code reads%s: the history-independence argument does not cover it" % (
                name, f["ty"], " and writes" if writers else ""))


def _is_const(e):
    """An expression without any input: literals and arithmetic over literals."""
    leaves = [x for x in walk(e)]
    if not leaves:
        return False
    for x in leaves:
        if x[0] in ("arg", "local", "field", "call", "rt", "static", "deref", "index", "cparam", "constx", "deep", "rvx", "discr", "closure", "fnitem"):
            return False
    return any(x[0] == "const" for x in leaves)


def _const_reaching(facts, fn, e, at, depth=0, seen=None):
    """A description of a compile-time constant that can reach expression `e` (evaluated at block `at` of fn) on some path,
    or None.  Values the analysis does not understand count as 'not a constant' (no report)."""
    seen = seen if seen is not None else set()
    e = strip_casts(e)
    if _is_const(e):
        return "the constant %s" % show(e)
    if depth > 4:
        return None
    if e[0] == "local":
        if (fn.path, e[1]) in seen:
            return None
        seen.add((fn.path, e[1]))
        for bi, si, d in fn.def_exprs(e[1], at=at):
            r = _const_reaching(facts, fn, d, bi if bi >= 0 else at, depth + 1, seen)
            if r:
                return r
        return None
    if e[0] == "field" and strip_casts(e[1])[0] in ("local", "call"):
        base = strip_casts(e[1])
        if base[0] == "local":
            for v, vb in _field_values(fn, base[1], e[2], at):
                r = _const_reaching(facts, fn, v, vb, depth + 1, seen)
                if r:
                    return r
            return None
        cb = facts.body(M, str(base[3] or base[1]))
        if cb is None:
            return None
        cf = fn_of(cb)
        for rb in cf.returns:
            for v, vb in _field_values(cf, 0, e[2], rb):
                r = _const_reaching(facts, cf, v, vb, depth + 1, seen)
                if r:
                    return "%s (field `%s` of the value %s returns)" % (r, e[2], cf.path.rsplit("::", 1)[-1])
        return None
    if e[0] == "call" and not e[2]:
        return None
    return None


def _field_values(fn, l, name, at, depth=0):
    """(value expression, block) pairs that field `name` of local l can hold at block `at`: the field of every whole-value
    definition that reaches `at` and is not overwritten on all paths, plus every assignment to the field itself."""
    out = []
    parts = [(bi, si, s) for bi, si, kind, s in fn.partial_defs.get(l, []) if kind == "assign" and len(s["lhs"]["p"]) == 1
             and isinstance(s["lhs"]["p"][0], dict) and s["lhs"]["p"][0].get("name") == name]
    pblocks = [bi for bi, _, _ in parts]
    for bi, si, s in parts:
        out.append((fn.expr_of_rvalue(s["rv"]), bi))
    for pbi, psi, kind, t in fn.partial_defs.get(l, []):
        if kind == "call" and len(t["dest"]["p"]) == 1 and isinstance(t["dest"]["p"][0], dict) and t["dest"]["p"][0].get("name") == name:
            pblocks.append(pbi)          # assigned from a call: not a constant
    for bi, si, d in fn.def_exprs(l, at=at):
        if bi >= 0 and pblocks and bi not in pblocks:
            r = fn.reach_from(bi, removed_nodes=pblocks)
            if at not in r:
                continue                  # overwritten on every path to `at`
        d = strip_casts(d)
        if d[0] == "agg" and name in d[2]:
            out.append((d[2][name], bi if bi >= 0 else at))
        elif d[0] == "local" and depth < 4:
            out.extend(_field_values(fn, d[1], name, bi if bi >= 0 else at, depth + 1))
        elif d[0] == "tuple" and name.isdigit() and int(name) < len(d[1]):
            out.append((d[1][int(name)], bi if bi >= 0 else at))
        else:
            out.append((("field", d, name, None), bi if bi >= 0 else at))
    return out


def rule_scan_window(ctx):
    """The final score is the maximum over the cells the *last scored row* wrote.  score_row writes `current_row` from a
    column that depends on the row offsets (an input-dependent position); the cells below that column were not written
    by this call: they hold what an earlier call left in the slab.  Necessary condition decided here: the position at
    which the final scan over `current_row` starts is not a compile-time constant on any path (followed through locals,
    struct fields and the values returned by the matrix routines)."""
    facts = ctx.facts
    sr = facts.body(M, "fuzzy_optimal::<impl matrix::MatcherDataView<'_, H>>::score_row")
    fn = get_fn(facts, M, "fuzzy_optimal::<impl Matcher>::fuzzy_match_optimal")
    if sr is None:
        ctx.fail_closed("score_row not found: which cells of current_row a call writes is not known")
        return
    srf = fn_of(sr)
    wstarts = []
    for bi, t in srf.calls(lambda t: callee(t).endswith("::index_mut") or callee(t).endswith("::index") or callee(t).endswith("get_unchecked_mut") or callee(t).endswith("::get_mut")):
        a0 = srf.expr_of_operand(t["args"][0])
        if not any(x[0] == "arg" and x[2] == "current_row" for x in walk(a0)) and "current_row" not in show(a0):
            continue
        rng = strip_casts(srf.expr_of_operand(t["args"][1]))
        if rng[0] == "agg" and "start" in rng[2]:
            wstarts.append(rng[2]["start"])
    if not wstarts:
        ctx.fail_closed("score_row: no `current_row[a..]` window recognised: which cells a call writes is not known")
        return
    if all(_is_const(w) for w in wstarts):
        ctx.ok(site(srf, 0), "score_row writes current_row from a fixed column: no unwritten prefix")
        return
    n = 0
    for bi, t in fn.calls(lambda t: callee(t).rsplit("::", 1)[-1] in ("max", "max_by_key", "max_by", "fold", "reduce", "min_by_key", "last") and "Iterator" in callee(t)):
        chain = fn.expr_of_operand(t["args"][0])
        its = [x for x in walk(chain) if x[0] == "call" and (str(x[1]).endswith("[T]>::iter") or str(x[1]).endswith("IntoIterator>::into_iter"))]
        its = [x for x in its if "current_row" in show(x[2][0])]
        if not its:
            continue
        n += 1
        src = strip_casts(its[0][2][0])
        while src[0] in ("ref", "deref"):
            src = strip_casts(src[1])
        starts = []
        if src[0] == "call" and (str(src[1]).endswith("::index") or str(src[1]).endswith("::index_mut")):
            rng = strip_casts(src[2][1])
            if rng[0] == "agg" and "start" in rng[2]:
                starts.append(rng[2]["start"])
            elif rng[0] == "agg" and "RangeFull" not in rng[1] and "RangeTo" not in rng[1]:
                ctx.fail_closed("%s: the window of the final scan (%s) is not understood" % (fn.path, show(rng)[:80]))
                continue
        for x in walk(chain):
            if x[0] == "call" and str(x[1]).rsplit("::", 1)[-1] in ("skip", "skip_while", "filter", "filter_map", "rev", "take", "zip", "step_by", "nth"):
                if str(x[1]).endswith("::skip"):
                    starts.append(x[2][1])
                elif not starts:
                    starts.append(("call", "?", ()))      # restricted in some other way: not decided here, no report
        key = "%s|scan-window|%d" % (fn.path, n)
        if not starts:
            ctx.violation(key, site(fn, bi), "the final scan runs over all of `current_row`: the cells below the first column the last row wrote hold leftovers of earlier calls on this matcher")
            continue
        bad = None
        for s_ in starts:
            bad = bad or _const_reaching(facts, fn, s_, bi)
        if bad:
            ctx.violation(key, site(fn, bi), "the final scan over `current_row` can start at %s, while score_row writes the last row from a column that depends on the row offsets: "
                          "cells that this call did not write (leftovers of earlier calls on this matcher) take part in the maximum" % bad)
        else:
            ctx.ok(site(fn, bi), "the final scan starts at an input-dependent column (%s)" % "; ".join(show(s_)[:60] for s_ in starts))
    if n == 0:
        # no `iter().max..` chain: a hand-written search over a window of current_row (`split_at(off)`, `&row[off..]` bound to
        # a name and indexed / looped over).  The windows themselves are judged.
        for bi, t in fn.calls(lambda t: callee(t).rsplit("::", 1)[-1] in ("split_at", "split_at_mut", "split_at_checked", "index", "get", "iter")):
            a0 = fn.expr_of_operand(t["args"][0]) if t.get("args") else None
            if a0 is None or "current_row" not in show(a0):
                continue
            seg = callee(t).rsplit("::", 1)[-1]
            starts = []
            if seg.startswith("split_at") and len(t["args"]) > 1:
                starts.append(fn.expr_of_operand(t["args"][1]))
            elif seg in ("index", "get") and len(t["args"]) > 1:
                rng = strip_casts(fn.expr_of_operand(t["args"][1]))
                if rng[0] == "agg" and "Range" in str(rng[1]):
                    starts.append(rng[2].get("start", ("const", 0, None, "usize")))
                else:
                    continue          # a single cell
            elif seg == "iter":
                inner = strip_casts(a0)
                while inner[0] in ("ref", "deref"):
                    inner = strip_casts(inner[1])
                if any(x[0] == "call" and not str(x[1]).endswith("Deref>::deref") and not str(x[1]).endswith("DerefMut>::deref_mut") and not str(x[1]).endswith("MatrixSlab::alloc") for x in walk(inner)):
                    continue          # iterating a window made by one of the calls above
                starts.append(("const", 0, None, "usize"))
            n += 1
            key = "%s|scan-window|%d" % (fn.path, n)
            bad = None
            for s_ in starts:
                bad = bad or _const_reaching(facts, fn, s_, bi)
            if bad:
                ctx.violation(key, site(fn, bi), "a window of `current_row` read after the matrix is populated can start at %s, while score_row writes the last row from a column that depends on the "
                              "row offsets: cells that this call did not write take part in the result" % bad)
            else:
                ctx.ok(site(fn, bi), "window of current_row starts at an input-dependent column (%s)" % "; ".join(show(s_)[:60] for s_ in starts))
    ctx.floor("final scans over current_row in fuzzy_match_optimal", n, 1)


def rule_owning_pointers(ctx):
    """A type that owns a raw allocation (raw pointer / NonNull field + a hand-written Drop that frees it) must not
    be duplicable bit-for-bit: a derived Clone/Copy hands two owners the same pointer (use after free on the
    survivor, double free at the end).  Both crates."""
    facts = ctx.facts
    n = 0
    for cname in ("nucleo_matcher", "nucleo"):
        c = facts.crate(cname)
        impls = c["impls"]
        for a in c["adts"]:
            raw = [(f["name"], f["ty"]) for v in a["variants"] for f in v["fields"] if "NonNull<" in f["ty"] or f["ty"].startswith("*mut") or f["ty"].startswith("*const")]
            if not raw:
                continue
            base = a["path"]
            mine = [i for i in impls if i["self_ty"].split("<")[0] == base]
            drops = [i for i in mine if i.get("trait") == "std::ops::Drop" and not i.get("derived")]
            if not drops:
                continue   # does not own what it points to
            n += 1
            dup = [i for i in mine if i.get("trait") in ("std::clone::Clone", "std::marker::Copy") and i.get("derived")]
            if dup:
                ctx.violation("%s|owning-pointer|%s" % (base, dup[0]["trait"].rsplit("::", 1)[-1]), "%s:%d" % (dup[0]["loc"]["file"], dup[0]["loc"]["line"]),
                              "%s owns the allocation behind `%s: %s` (it frees it in Drop) but derives %s: every clone shares the pointer — matching on one after the other was dropped reads freed memory, and the second drop frees it again"
                              % (base, raw[0][0], raw[0][1], dup[0]["trait"].rsplit("::", 1)[-1]))
            else:
                ctx.ok("%s:%d" % (a["loc"]["file"], a["loc"]["line"]), "%s owns a raw allocation and is not bitwise-duplicable (no derived Clone/Copy)" % base)
    ctx.floor("types owning a raw allocation", n, 1)


def rules(ctx):
    ctx.run_rule("C10.owning-pointers", rule_owning_pointers)
    ctx.run_rule("C10.view-extents", rule_view_extents)
    ctx.run_rule("C10.scan-window", rule_scan_window)
    ctx.run_rule("C10.slab-guards", rule_slab_guards)
    ctx.run_rule("C10.u16-overflow", rule_u16_overflow)
    ctx.run_rule("C10.truncating-casts", rule_truncating_casts)
    ctx.run_rule("C10.len-asserts", rule_len_asserts)
    ctx.run_rule("C10.reject-no-panic", rule_reject_no_panic)
    ctx.run_rule("C10.unsafe-inventory", rule_unsafe_inventory)
    ctx.run_rule("C10.config-only-state", rule_config_only_state)
